"""C18: retarget_symbol_uses is complete and precise."""
from vlib import common as C
from vlib.runner import Prop

INS = {"jmp": (b"\xe9\0\0\0\0", 1, 0), "call": (b"\xe8\0\0\0\0", 1, 0), "jcc": (b"\x0f\x85\0\0\0\0", 2, 0),
       "lea": (b"\x48\x8d\x05\0\0\0\0", 3, 1), "nop": (b"\x90", None, None), "ret": (b"\xc3", None, None),
       # call *sym@GOTPCREL(%rip) / jmp *sym@GOTPCREL(%rip): control transfers through the symbol whose edge is not direct
       "icall": (b"\xff\x15\0\0\0\0", 2, 0), "ijmp": (b"\xff\x25\0\0\0\0", 2, 0)}
CALLS = ("call", "icall")
ET = {"Branch": 0, "Call": 1, "Fallthrough": 2, "Return": 3}


def gen(rnd):
    """a module description: symbols, code blocks (one instruction each), data words, CFI, forwarding, the retarget map"""
    nsym = rnd.randint(3, 6)
    nblk = rnd.randint(3, 6)
    c = dict(pie=rnd.random() < 0.5)
    # symbol referents: code block k, data word k, proxy k, none
    c["syms"] = []
    for s in range(nsym):
        k = rnd.random()
        c["syms"].append(("code", rnd.randrange(nblk)) if k < 0.5 else ("data", rnd.randrange(2)) if k < 0.7 else ("proxy", rnd.randrange(2)) if k < 0.92 else ("none", 0))
    c["blocks"] = []
    for b in range(nblk):
        kind = rnd.choice(["jmp", "call", "jcc", "lea", "nop", "ret", "jmp", "call", "icall", "ijmp"])
        sym = rnd.randrange(nsym) if INS[kind][1] is not None else None
        attrs = []
        if sym is not None and c["syms"][sym][0] in ("proxy", "none") and rnd.random() < 0.7:
            attrs = ["PLT"] if INS[kind][2] == 0 else (["GOT", "PCREL"] if c["pie"] else ["PLT"])
        elif sym is not None and rnd.random() < 0.1:
            attrs = [rnd.choice(["PLT", "GOT"])]
        c["blocks"].append((kind, sym, rnd.choice([0, 0, 4]), attrs))
    c["data"] = []
    for w in range(2):
        k = rnd.random()
        c["data"].append(None if k < 0.3 else ("const", rnd.randrange(nsym), rnd.choice([0, 8])) if k < 0.9 else ("addr", rnd.randrange(nsym), rnd.randrange(nsym)))
    c["overlap"] = rnd.randrange(nblk) if rnd.random() < 0.06 else None
    c["cfi"] = [[(t, rnd.choice(list(range(nsym)) + [None])) for t in range(rnd.randint(1, 2))] for _ in range(rnd.randint(0, 2))]
    fwd = {}
    for _ in range(rnd.randint(0, 2)):
        fwd[rnd.randrange(nsym)] = rnd.randrange(nsym)
    c["fwd"] = sorted(fwd.items())
    m = {}
    with_ref = [s for s in range(nsym) if c["syms"][s][0] != "none"]
    for _ in range(rnd.randint(1, 2)):
        a = rnd.randrange(nsym)
        if with_ref:
            m[a] = rnd.choice(with_ref)
    c["map"] = sorted(m.items())
    return c


def functions(c):
    """consecutive runs of blocks up to and including a ret"""
    out, cur = [], []
    for b, (kind, _, _, _) in enumerate(c["blocks"]):
        cur.append(b)
        if kind == "ret":
            out.append(cur)
            cur = []
    if cur:
        out.append(cur)
    return out


def return_edges(c, rmap):
    """the return edges the listing asks for when the operands of the calls are read through rmap: every ret of a function
    returns to the block behind each call that targets the function; with no such call, to a proxy (100)"""
    funcs = functions(c)
    func_of = {b: k for k, f in enumerate(funcs) for b in f}
    sites = {}
    for b, (kind, sym, _, _) in enumerate(c["blocks"]):
        if kind in CALLS and b + 1 < len(c["blocks"]):
            ref = c["syms"][rmap.get(sym, sym)]
            if ref[0] == "code":
                sites.setdefault(func_of[ref[1]], set()).add(b + 1)
    out = set()
    for k, f in enumerate(funcs):
        for b in f:
            if c["blocks"][b][0] == "ret":
                for s in sites.get(k, {100}):
                    out.add((b, s))
    return out


def build(c):
    import gtirb
    from gtirb_rewriting import _auxdata
    A = gtirb.SymbolicExpression.Attribute
    ir = gtirb.IR()
    m = gtirb.Module(name="m", isa=gtirb.Module.ISA.X64, file_format=gtirb.Module.FileFormat.ELF, byte_order=gtirb.Module.ByteOrder.Little, ir=ir)
    m.aux_data["binaryType"] = gtirb.AuxData(["DYN"] if c["pie"] else ["EXEC"], "sequence<string>")
    text = gtirb.Section(name=".text", module=m)
    data = gtirb.Section(name=".data", module=m)
    tbi = gtirb.ByteInterval(contents=b"", address=0x1000, section=text)
    dbi = gtirb.ByteInterval(contents=bytes(16), address=0x4000, section=data)
    dblocks = [gtirb.DataBlock(offset=8 * k, size=8, byte_interval=dbi) for k in range(2)]
    proxies = [gtirb.ProxyBlock(module=m) for _ in range(2)]
    cblocks, offs = [], []
    content = b""
    for kind, sym, addend, attrs in c["blocks"]:
        enc = INS[kind][0]
        offs.append(len(content))
        cblocks.append(gtirb.CodeBlock(offset=len(content), size=len(enc)))
        content += enc
    tbi.contents = content
    tbi.size = len(content)
    for b in cblocks:
        b.byte_interval = tbi
    if c["overlap"] is not None:
        k = c["overlap"]
        gtirb.CodeBlock(offset=offs[k], size=cblocks[k].size, byte_interval=tbi)
    syms = []
    for i, (kind, k) in enumerate(c["syms"]):
        ref = cblocks[k] if kind == "code" else dblocks[k] if kind == "data" else proxies[k] if kind == "proxy" else None
        s = gtirb.Symbol(f"s{i}", module=m)
        if ref is not None:
            s.referent = ref
        syms.append(s)
    for b, (kind, sym, addend, attrs) in enumerate(c["blocks"]):
        if sym is None:
            continue
        tbi.symbolic_expressions[offs[b] + INS[kind][1]] = gtirb.SymAddrConst(addend, syms[sym], {getattr(A, a) for a in attrs})
        ref = syms[sym].referent
        if INS[kind][2] == 0 and ref is not None and isinstance(ref, (gtirb.CodeBlock, gtirb.ProxyBlock)):
            ir.cfg.add(gtirb.Edge(cblocks[b], ref, gtirb.Edge.Label(gtirb.Edge.Type.Call if kind in CALLS else gtirb.Edge.Type.Branch, conditional=(kind == "jcc"), direct=kind not in ("icall", "ijmp"))))
        if kind in ("call", "jcc", "lea", "icall") and b + 1 < len(cblocks):
            ir.cfg.add(gtirb.Edge(cblocks[b], cblocks[b + 1], gtirb.Edge.Label(gtirb.Edge.Type.Fallthrough)))
    for (src, dst) in return_edges(c, {}):
        ir.cfg.add(gtirb.Edge(cblocks[src], cblocks[dst] if dst < 100 else proxies[dst - 100], gtirb.Edge.Label(gtirb.Edge.Type.Return)))
    for w, d in enumerate(c["data"]):
        if d is None:
            continue
        dbi.symbolic_expressions[8 * w] = gtirb.SymAddrConst(d[2], syms[d[1]]) if d[0] == "const" else gtirb.SymAddrAddr(1, 0, syms[d[1]], syms[d[2]])
    if c["cfi"]:
        tab = _auxdata.cfi_directives.get_or_insert(m)
        for k, ds in enumerate(c["cfi"]):
            tab[gtirb.Offset(cblocks[0], k)] = [(f".cfi_tag{t}", [], _auxdata.NULL_UUID if sy is None else syms[sy]) for t, sy in ds]
    if c["fwd"]:
        t = _auxdata.symbol_forwarding.get_or_insert(m)
        for a, b in c["fwd"]:
            t[syms[a]] = syms[b]
    return ir, m, tbi, dbi, cblocks, dblocks, proxies, syms, offs


def node_id(n, cblocks, dblocks, proxies):
    for k, b in enumerate(cblocks):
        if n is b:
            return k
    for k, b in enumerate(dblocks):
        if n is b:
            return 50 + k
    for k, p in enumerate(proxies):
        if n is p:
            return 100 + k
    return 999


def dump(c, objs):
    import gtirb
    from gtirb_rewriting import _auxdata
    ir, m, tbi, dbi, cblocks, dblocks, proxies, syms, offs = objs
    sid = {id(s): i for i, s in enumerate(syms)}
    rows = []
    for k, iv in enumerate((tbi, dbi)):
        for off, e in iv.symbolic_expressions.items():
            add = e.offset
            rows.append(f"{k}+{off}:" + ("C" if isinstance(e, gtirb.SymAddrConst) else "A") + ",".join(str(sid[id(s)]) for s in e.symbols) + f"+{add}" +
                        "{" + ",".join(sorted(str(a.value) for a in e.attributes)) + "}")
    out = ["sites " + ";".join(sorted(rows))]
    rows = []
    for o, ds in (_auxdata.cfi_directives.get(m) or {}).items():
        rows.append(f"{o.displacement}=" + "/".join(d[0][len(".cfi_tag"):] + ("null" if not hasattr(d[2], "name") else f"s{sid[id(d[2])]}") for d in ds))
    out.append("cfi " + ";".join(sorted(rows)))
    out.append("fwd " + ",".join(sorted(f"{sid[id(a)]}>{sid[id(b)]}" for a, b in (_auxdata.symbol_forwarding.get(m) or {}).items())))
    out.append("edges " + ",".join(sorted(f"{node_id(e.source, cblocks, dblocks, proxies)}>{node_id(e.target, cblocks, dblocks, proxies)}:{ET[e.label.type.name]}" for e in ir.cfg)))
    return " | ".join(out)


def model_line(c, objs):
    import gtirb
    from gtirb_rewriting.abi import ABI, _SymExprAttributeRule
    ir, m, tbi, dbi, cblocks, dblocks, proxies, syms, offs = objs
    AT = _SymExprAttributeRule.AccessType
    acc = {AT.CONTROL_FLOW: 0, AT.CODE_REF: 1, AT.DATA: 2}
    p = ["retarget", str(len(syms))]
    for i, s in enumerate(syms):
        r = s.referent
        p.append(f"{i} {-1 if r is None else node_id(r, cblocks, dblocks, proxies)} {1 if isinstance(r, gtirb.ByteBlock) else 0} {1 if isinstance(r, gtirb.CfgNode) else 0}")
    rules = list(ABI.get(m)._sym_expr_rules(m))
    p.append(str(len(rules)))
    for r in rules:
        for xs in (sorted(a.value for a in r.internal_attrs), sorted(a.value for a in r.external_attrs), sorted(acc[a] for a in r.access_types)):
            p.append(f"{len(xs)} " + " ".join(map(str, xs)))
    p.append(str(len(c["map"])) + " " + " ".join(f"{a} {b}" for a, b in c["map"]))
    sites = []
    for b, (kind, sym, addend, attrs) in enumerate(c["blocks"]):
        if sym is None:
            continue
        A = gtirb.SymbolicExpression.Attribute
        at = sorted(getattr(A, a).value for a in attrs)
        nb = 2 if c["overlap"] == b else 1
        sites.append(f"0 {offs[b] + INS[kind][1]} 1 1 {sym} {addend} {len(at)} " + " ".join(map(str, at)) + f" {nb} {b if nb == 1 else -1} 1 {INS[kind][2]}")
    for w, d in enumerate(c["data"]):
        if d is None:
            continue
        if d[0] == "const":
            sites.append(f"1 {8 * w} 1 1 {d[1]} {d[2]} 0  1 {50 + w} 0 2")
        else:
            sites.append(f"1 {8 * w} 0 2 {d[1]} {d[2]} 0 0  1 {50 + w} 0 2")
    p.append(str(len(sites)) + " " + " ".join(sites))
    p.append(str(len(c["cfi"])))
    for k, ds in enumerate(c["cfi"]):
        p.append(f"{k} {len(ds)} " + " ".join(f"{t} {-1 if sy is None else sy}" for t, sy in ds))
    p.append(str(len(c["fwd"])) + " " + " ".join(f"{a} {b}" for a, b in c["fwd"]))
    edges = [(node_id(e.source, cblocks, dblocks, proxies), node_id(e.target, cblocks, dblocks, proxies), ET[e.label.type.name]) for e in ir.cfg]
    p.append(str(len(edges)) + " " + " ".join(f"{a} {b} {y}" for a, b, y in sorted(edges)))
    return " ".join(p)


def run_impl(c):
    import gtirb_rewriting
    from gtirb_capstone.instructions import GtirbInstructionDecoder
    from gtirb_rewriting._modify.retarget import retarget_symbol_uses
    objs = build(c)
    line = model_line(c, objs)
    ir, m, tbi, dbi, cblocks, dblocks, proxies, syms, offs = objs
    try:
        retarget_symbol_uses(m, {syms[a]: syms[b] for a, b in c["map"]}, GtirbInstructionDecoder(m.isa))
    except Exception as e:   # noqa
        return line, "err " + type(e).__name__, objs
    return line, dump(c, objs), objs


def spec_check(c, out, objs):
    """the property's clauses on the implementation's output (successful calls)"""
    import gtirb
    ir, m, tbi, dbi, cblocks, dblocks, proxies, syms, offs = objs
    rmap = dict(c["map"])
    if out.startswith("err"):
        return None
    A = gtirb.SymbolicExpression.Attribute
    for b, (kind, sym, addend, attrs) in enumerate(c["blocks"]):
        if sym is None:
            continue
        e = tbi.symbolic_expressions[offs[b] + INS[kind][1]]
        want_sym = rmap.get(sym, sym)
        if e.symbol is not syms[want_sym]:
            return f"operand of block {b} names {e.symbol.name}, expected s{want_sym}"
        if e.offset != addend:
            return f"addend of the operand of block {b} changed"
        if sym not in rmap and {a.name for a in e.attributes} != set(attrs):
            return f"attributes of an operand that was not retargeted changed"
    for w, d in enumerate(c["data"]):
        if d is not None and d[0] == "const":
            e = dbi.symbolic_expressions[8 * w]
            if e.symbol is not syms[rmap.get(d[1], d[1])] or e.offset != d[2]:
                return f"data word {w} names {e.symbol.name}+{e.offset}"
    # edges: exactly the branch / call edges of instructions whose operand was retargeted lead to the new referent
    want = set()
    for b, (kind, sym, addend, attrs) in enumerate(c["blocks"]):
        if sym is None:
            continue
        tgt = rmap.get(sym, sym) if INS[kind][2] == 0 else sym
        old_ref = c["syms"][sym]
        if INS[kind][2] == 0 and old_ref[0] in ("code", "proxy"):
            new_ref = c["syms"][tgt]
            nid = new_ref[1] if new_ref[0] == "code" else 100 + new_ref[1]
            want.add((b, nid, 1 if kind in CALLS else 0))
        if kind in ("call", "jcc", "lea", "icall") and b + 1 < len(cblocks):
            want.add((b, b + 1, 2))
    got = {(node_id(e.source, cblocks, dblocks, proxies), node_id(e.target, cblocks, dblocks, proxies), ET[e.label.type.name]) for e in ir.cfg}
    if {x for x in got if x[2] != 3} != want:
        return f"edges {sorted(x for x in got if x[2] != 3)}, expected {sorted(want)}"
    want_ret = {(a, b, 3) for a, b in return_edges(c, rmap)}
    if {x for x in got if x[2] == 3} != want_ret:
        return "FINDING:C18-return-edges-do-not-follow-retargeted-calls" if return_edges(c, rmap) != return_edges(c, {}) else \
            f"return edges {sorted(x for x in got if x[2] == 3)}, expected {sorted(want_ret)}"
    return None


class C18(Prop):
    id = "C18"
    gens = []
    prop_file = "Properties/C18.v"
    extract = ("sym", "ExtractSym.v", "sym_main.ml", "Sym_model")
    allowed_axioms = set()
    trusted_base = ["Coq 8.16.1 kernel", "hand model Sym/Retarget.v of _modify/retarget.py, tied by running the extracted model against "
                    "retarget_symbol_uses() on random modules", "the ABI's attribute rules (ABI._sym_expr_rules) and the access type of each operand "
                    "(from the generator's own knowledge of the instruction, not from the decoder under test) are inputs of the model",
                    "extraction: ExtrOcamlBasic only; OCaml driver ocaml/zutil.ml + sym_main.ml"]
    assumptions = ["at most one expression of a case triggers an error, so that the error class does not depend on set iteration order"]
    level_rule = ("random x86-64 ELF modules (PIE and non-PIE): code blocks jmp/call/jcc/lea with symbolic operands (internal and external "
                  "symbols, PLT / GOT+PCREL attributes), data words (SymAddrConst, SymAddrAddr), overlapping blocks, CFI directives and "
                  "symbolForwarding naming symbols; 1-2 retarget pairs")

    @staticmethod
    def error_sources(c):
        rmap = dict(c["map"])
        n = 0
        for d in c["data"]:
            if d is not None and d[0] == "addr" and (d[1] in rmap or d[2] in rmap):
                n += 1
        for b, (kind, sym, addend, attrs) in enumerate(c["blocks"]):
            if sym is None or sym not in rmap:
                continue
            if c["overlap"] == b:
                n += 1
            elif INS[kind][2] == 0 and c["syms"][sym][0] in ("code", "proxy") and c["syms"][rmap[sym]][0] == "data":
                n += 1
        return n

    def cases(self, tier, tag):
        rnd = C.rng(tag)
        n = {"quick": 2500, "thorough": 15000}[tier]
        out = []
        while len(out) < n:
            c = gen(rnd)
            if self.error_sources(c) <= 1:          # the error class must not depend on the iteration order of sets
                out.append(c)
        return out

    def correspondence(self, tier, ctx):
        cases = self.cases(tier, "c18")
        runs = [run_impl(c) for c in cases]
        self._runs = list(zip(cases, runs))
        lines = [l for l, _, _ in runs]
        got = C.run_driver("sym", lines)
        dis = [{"case": l[:300], "implementation": o, "model": g} for (l, o, _), g in zip(runs, got) if o != g]
        errs = {}
        for _, o, _ in runs:
            if o.startswith("err"):
                errs[o] = errs.get(o, 0) + 1
        return dict(evaluations=len(lines), distinct_nontrivial=len(set(lines)), samples=[{"case": l[:160], "result": o[:200]} for l, o, _ in runs[:4]],
                    disagreements=dis[:20], dist={"cases": len(cases), "errors": errs})

    def oracle(self, tier, ctx, boosted):
        runs = getattr(self, "_runs", None)
        if runs is None or boosted:
            cases = self.cases("thorough" if boosted else tier, "c18-boost")
            runs = (runs or []) + [(c, run_impl(c)) for c in cases]
        bads = []
        corpus = {'pie': False, 'syms': [('code', 0), ('code', 2)], 'blocks': [('ret', None, 0, []), ('call', 0, 0, []), ('ret', None, 0, [])],
                  'data': [None, None], 'overlap': None, 'cfi': [], 'fwd': [], 'map': [(0, 1)]}
        runs = [(corpus, run_impl(corpus))] + list(runs)
        for c, (line, out, objs) in runs:
            v = spec_check(c, out, objs)
            if v and v.startswith("FINDING:"):
                bads.append(dict(what="a call retargeted into another function: the old function still returns to the call site, the new one does not",
                                 input=c, finding=v[len("FINDING:"):]))
            elif v:
                bads.append(dict(what=v, input=c, finding=None))
        bads = [b for b in bads if b["finding"] is None][:10] + [b for b in bads if b["finding"]][:2]
        return dict(evaluations=len(runs), violations=bads, samples=[{"oracle": "operands, addends, untouched attributes and the exact edge set after the call"}])

    def replay(self, path):
        import json
        print(json.dumps(json.load(open(path)), indent=1)[:3000])
        return 0


PROP = C18()
