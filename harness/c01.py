"""C01: bytes are edited exactly like the assembly listing."""
from harness.ir import IRProp


def listing_edit(data, mods):
    """The specification: walk the original bytes; mods = [(offset, removed, patch bytes)] sorted by (offset, registration)."""
    out, cur = bytearray(), 0
    for off, ln, patch in mods:
        out += data[cur:off]
        out += patch
        cur = off + ln
    out += data[cur:]
    return bytes(out)


def match_with_padding(actual, chunks, aligns, base=0x1000):
    """actual == chunks[0] + pad + chunks[1] + ... where pad before chunk k is empty or exactly the nop/zero run that
    aligns it to one of the alignments in the table.  chunks: [(bytes, is_code)]"""
    states = {0}
    prev_code = True
    for data, is_code in chunks:
        nxt = set()
        for pos in states:
            cands = {pos}
            for a in aligns:
                pad = (-(base + pos)) % a
                fill = (b"\x90" if prev_code else b"\x00") * pad
                if pad and actual[pos:pos + pad] == fill:
                    cands.add(pos + pad)
            for p in cands:
                if actual[p:p + len(data)] == data:
                    nxt.add(p + len(data))
        states = nxt
        if not states:
            return False
        if data:
            prev_code = is_code
    return len(actual) in states


def expected_chunks(case, r):
    from harness.irgen import ENC
    chunks = []
    for i, x in enumerate(case.blocks):
        data = x["data"] if x["kind"] == "d" else b"".join(ENC[k] for k, _ in x["ins"])
        mods = []
        for n, (bi, t, off, ln, patch, _) in enumerate(case.mods):
            if bi != i:
                continue
            if t == "del":
                mods.append((off, n, ln, b""))
            elif isinstance(patch, bytes):
                mods.append((off, n, ln, patch))        # a bytes patch is its own listing: no need to see it pass through insert()
            else:
                if n not in r["mod_code"]:
                    return None
                mods.append((off, n, ln, r["mod_code"][n][0]))
        mods.sort()
        chunks.append((listing_edit(data, [(o, ln, p) for o, _, ln, p in mods]), x["kind"] == "c"))
    return chunks


class C01(IRProp):
    id = "C01"
    prop_file = "Properties/C01.v"
    tag = "c01"
    genopts = dict(with_cfi=False, with_lead=True, same_size_data=0.5)
    trusted_base = IRProp.base_trusted
    assumptions = ["modifications of one block do not overlap (resolve_offsets asserts it)",
                   "theorem C01_apply_modifications excludes work lists that delete a whole prefix of a block and then edit again at its new "
                   "start (positive_positions); that class is covered by the correspondence and oracle runs only"]
    level_rule = ("random x86-64 modules (1-3 functions, code and data blocks, labels incl. end labels, alignment, offset tables) with up to 3 "
                  "insertions / replacements / deletions per block at instruction boundaries; distinct = distinct model input line; "
                  "non-trivial = at least one modification; plus 500 / 5000 small x86-64, AArch64 and MIPS32 modules with insert_at, "
                  "SingleBlockScope and AllBlocksScope registrations (ENTRY / EXIT) and alignment entries, compared byte for byte with the listing edit")
    oracle_text = ("section bytes after apply() == listing edit of the original bytes with the assembler's bytes of each patch, modulo nop/zero "
                   "runs that align a block whose alignment is recorded")

    def spec(self, seed, case, r):
        if r["error"] is not None:
            return []
        chunks = expected_chunks(case, r)
        if chunks is None:
            return []
        m = r["built"].m
        aligns = sorted(set(m.aux_data["alignment"].data.values()) | set(case.align.values()))
        for sect in m.sections:
            actual = b"".join(bytes(bi.contents) for bi in sorted(sect.byte_intervals, key=lambda b: b.address or 0))
            if actual[:case.lead] != b"\xcc" * case.lead:
                return [dict(what=f"section {sect.name}: the {case.lead} bytes in front of the first block changed: {actual.hex()}")]
            actual = actual[case.lead:]
            if not match_with_padding(actual, chunks, aligns):
                return [dict(what=f"section {sect.name}: bytes {actual.hex()} are not the listing edit {[c.hex() for c, _ in chunks]}")]
        return []


    def oracle(self, tier, ctx, boosted):
        import random

        from harness import ctxlevel
        from vlib import common as C
        res = super().oracle(tier, ctx, boosted)
        # the listing edit on every ISA, with scope registrations (ENTRY / EXIT of blocks that end in calls, jumps, returns or nothing)
        # and alignment padding of 4-byte nops
        rnd = C.rng("c01-scoped" + ("-boost" if boosted else ""))
        for _ in range({"quick": 500, "thorough": 5000}["thorough" if boosted else tier]):
            sd = rnd.randrange(1 << 30)
            w = ctxlevel.scoped_listing(random.Random(sd))
            res["evaluations"] += 1
            if w:
                res["violations"].append(dict(what=w, input={"scoped_listing_seed": sd}, finding=None))
        res["violations"] = [b for b in res["violations"] if b["finding"] is None][:10] + [b for b in res["violations"] if b["finding"] is not None][:5]
        return res


PROP = C01()
