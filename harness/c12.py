"""C12: the assembler's bytes, blocks and CFG match the assembly text."""
import random
import re

import gtirb

from harness import asmgen, asmmt
from vlib import common as C
from vlib.runner import Prop

SIZES = [(r"^nop$", 1), (r"^ret$", 1), (r"^(jmp|call) \*[A-Za-z_.]", 6), (r"^jmp \*", 2), (r"^call \*", 2), (r"^jmp ", 2), (r"^jne ", 2), (r"^call ", 5), (r"^lea ", 7),
         (r"^mov .*@GOTPCREL", 7), (r"^mov .*\(%rip\), %eax", 6), (r"^\.byte 1, 2, 3$", 3), (r"^\.byte 1$", 1), (r"^\.long ", 4), (r"^\.zero 3$", 3),
         (r"^\.quad ", 8), (r"^movl \$", 10), (r"^movw \$", 9), (r"^cmpb \$", 7), (r'^\.ascii "ab"$', 2), (r'^\.string "hi"$', 3), (r'^\.asciz "x"$', 2), (r"^\.[us]leb128 ", 1), (r"^\.(p2)?align ", 0)]
OPERAND = {"jmp": 1, "jne": 1, "call": 1, "lea": 3, "mov": 3, "movl": 2, "movw": 3, "cmpb": 2}      # offset of the symbolic operand; mov t+4(%rip),%eax: 2
THROUGH = r"^(jmp|call) \*([A-Za-z_.0-9]+)(@[A-Z]+)?()\(%rip\)"       # an indirect transfer through a memory operand that names a symbol
STORE = r"^(movl|movw|cmpb) \$\d+, ([A-Za-z_.0-9]+)()([+-]\d+)?\(%rip\)"      # the operand is followed by an immediate


def layout(lines):
    """(section name, offset, line) for every line, and label positions"""
    sect, offs, out, labels = ".text", {".text": 0}, [], {}
    for ln in lines:
        if ln in (".text", ".data"):
            sect = ln
            offs.setdefault(sect, 0)
        elif ln.startswith(".section"):
            sect = ln.split()[1].split(",")[0]
            offs.setdefault(sect, 0)
        elif ln.endswith(":"):
            labels.setdefault(ln[:-1], (sect, offs[sect]))
        else:
            size = next(sz for pat, sz in SIZES if re.match(pat, ln))
            out.append((sect, offs[sect], ln, size))
            offs[sect] += size
    return out, labels, offs


def check_result(lines, res, msyms, pie, unreachable=False):
    import capstone
    cs = capstone.Cs(capstone.CS_ARCH_X86, capstone.CS_MODE_64)
    items, labels, ends = layout(lines)
    # ---- tiling
    for name, sec in res.sections.items():
        pos = 0
        for k, b in enumerate(sec.blocks):
            if b.offset != pos:
                return f"section {name}: block {k} starts at {b.offset}, previous ended at {pos}"
            if b.size == 0 and k != len(sec.blocks) - 1:
                return f"section {name}: empty block {k} is not the last one"
            pos += b.size
        if pos != len(sec.data):
            return f"section {name}: blocks end at {pos}, data has {len(sec.data)} bytes"
        if len(sec.data) != ends.get(name, 0):
            return f"section {name}: {len(sec.data)} bytes, the text asks for {ends.get(name, 0)}"
    # ---- instructions: independent disassembly of the bytes at the positions of the instruction lines
    MN = {"nop": "nop", "ret": "ret", "jmp": "jmp", "jne": "jne", "call": "call", "lea": "lea", "mov": "mov", "movl": "mov", "movw": "mov", "cmpb": "cmp"}
    for sect, off, ln, size in items:
        word = ln.split()[0]
        if word in MN:
            data = bytes(res.sections[sect].data[off:off + size])
            ins = list(cs.disasm(data, 0))
            if len(ins) != 1 or ins[0].mnemonic != MN[word] or ins[0].size != size:
                return f"bytes {data.hex()} at {sect}+{off} do not disassemble to `{ln}`"
    # ---- labels
    symname = {}
    for s in res.symbols:
        symname[s.name] = s
    for l, (sect, off) in labels.items():
        s = symname.get(l) or symname.get(l + "_sfx1")
        if s is None:
            return f"label {l} has no symbol"
        r = s.referent
        if not isinstance(r, gtirb.ByteBlock) or not any(r is b for b in res.sections[sect].blocks):
            return f"label {l} does not refer to a block of {sect}"
        if r.offset + (r.size if s.at_end else 0) != off:
            return f"label {l} designates {sect}+{r.offset + (r.size if s.at_end else 0)}, the text puts it at {off}"
    # ---- control transfers and their edges; data blocks
    def resolve(name):
        s = symname.get(name) or symname.get(name + "_sfx1") or msyms.get(name)
        return s
    for sect, off, ln, size in items:
        word = ln.split()[0]
        if size == 0:
            continue
        sec = res.sections[sect]
        blk = next((b for b in sec.blocks if b.offset <= off < b.offset + b.size), None)
        if blk is None:
            return f"no block covers {sect}+{off}"
        if word in ("jmp", "jne", "call", "ret"):
            if not isinstance(blk, gtirb.CodeBlock):
                return f"`{ln}` lies in a data block"
            if blk.offset + blk.size != off + size:
                return f"`{ln}` at {sect}+{off} does not end its block ({blk.offset}+{blk.size})"
            edges = {(e.label.type.name, ("proxy" if isinstance(e.target, gtirb.ProxyBlock) else (e.target.offset if any(e.target is b for b in sec.blocks) else "other")),
                      bool(e.label.conditional), bool(e.label.direct)) for e in res.cfg.out_edges(blk)}
            nxt = next((b for b in sec.blocks if b.offset == off + size and b is not blk), None)
            want = set()
            indirect = "*" in ln
            if word == "ret":
                want.add(("Return", "proxy", False, True))
            else:
                if indirect:
                    tgt = "proxy"
                else:
                    name = ln.split()[1].split("@")[0]
                    s = resolve(name)
                    r = s.referent if s is not None else None
                    tgt = "proxy" if isinstance(r, gtirb.ProxyBlock) else (r.offset if (r is not None and any(r is b for b in sec.blocks)) else "other")
                want.add(("Call" if word == "call" else "Branch", tgt, word == "jne", not indirect))
                if word in ("call", "jne"):
                    if nxt is None:
                        return f"`{ln}` can fall through but no block follows it"
                    want.add(("Fallthrough", nxt.offset, False, True))
            if edges != want:
                return f"`{ln}` at {sect}+{off}: edges {sorted(edges, key=str)}, expected {sorted(want, key=str)}"
        elif word in MN:
            if not isinstance(blk, gtirb.CodeBlock):
                return f"`{ln}` lies in a data block"
            if blk.offset + blk.size > off + size:
                # the block goes on: the next item must not be reached through an edge from here
                pass
    # ---- symbolic operands
    for sect, off, ln, size in items:
        word = ln.split()[0]
        through = re.match(THROUGH, ln)
        m = through or re.match(STORE, ln) or re.match(r"^(jmp|jne|call|lea|mov|\.quad|\.long) ([A-Za-z_.0-9]+)(@[A-Z]+)?([+-][A-Za-z_.0-9]+)?", ln)
        if not m or ("*" in ln and not through) or m.group(2).isdigit():
            continue
        sec = res.sections[sect]
        opoff = off + (2 if through else 0 if word.startswith(".") else (2 if ln.endswith("%eax") else OPERAND[word]))
        e = sec.symbolic_expressions.get(opoff)
        if e is None:
            return f"`{ln}`: no symbolic expression at {sect}+{opoff}"
        want_sym = resolve(m.group(2))
        first = e.symbol1 if isinstance(e, gtirb.SymAddrAddr) else e.symbol
        if want_sym is not None and first is not want_sym and first.name not in (m.group(2), m.group(2) + "_sfx1"):
            return f"`{ln}`: expression names {first.name}"
        if want_sym is not None and want_sym in msyms.values() and first is not want_sym:
            return f"`{ln}`: a new symbol object was created for the module's symbol {m.group(2)}"
        # attributes: what the operand's @VARIANT asks for on ELF x86-64 (independent of the library's table)
        variant = m.group(3) if m.lastindex and m.lastindex >= 3 else None
        want_attrs = {"@GOTPCREL": {"GOT", "PCREL"}, "@PLT": {"PLT"}}.get(variant)
        if want_attrs is None and isinstance(e, gtirb.SymAddrConst):
            # nothing written: a direct call or jump to a symbol without definition goes through the PLT in a position-independent
            # module; every other operand -- the memory operand of an indirect transfer included -- is a plain reference
            direct_transfer = word in ("jmp", "jne", "call") and not through
            want_attrs = {"PLT"} if (pie and direct_transfer and isinstance(e.symbol.referent, gtirb.ProxyBlock)) else set()
        if want_attrs is not None:
            got_attrs = {a.name for a in e.attributes}
            if got_attrs != want_attrs:
                return f"`{ln}`: attributes {sorted(got_attrs)}, expected {sorted(want_attrs)}"
        tail = m.group(4)
        if isinstance(e, gtirb.SymAddrConst):
            addend = int(tail) if tail and re.match(r"^[+-]\d+$", tail) else 0
            if e.offset != addend:
                return f"`{ln}`: addend {e.offset}, expected {addend}"
        wsize = 4 if through else {".quad": 8, ".long": 4, "jmp": 1, "jne": 1, "call": 4, "lea": 4, "mov": 4, "movl": 4, "movw": 4, "cmpb": 4}[word]
        if sec.symbolic_expression_sizes.get(opoff) != wsize:
            return f"`{ln}`: operand size {sec.symbolic_expression_sizes.get(opoff)}, expected {wsize}"
    # every expression belongs to some line
    expected_positions = set()
    for sect, off, ln, size in items:
        word = ln.split()[0]
        if re.match(THROUGH, ln):
            expected_positions.add((sect, off + 2))
        elif (re.match(STORE, ln) or re.match(r"^(jmp|jne|call|lea|mov|\.quad|\.long|\.[us]leb128) [A-Za-z_.]", ln)) and "*" not in ln:
            expected_positions.add((sect, off + (0 if word.startswith(".") else (2 if ln.endswith("%eax") else OPERAND[word]))))
    for name, sec in res.sections.items():
        for p in sec.symbolic_expressions:
            if (name, p) not in expected_positions:
                return f"unexpected symbolic expression at {name}+{p}"
    w = asmmt.fresh_proxies(res, msyms)
    if w:
        return w
    # an ordinary instruction at the end of a block falls through to the code that follows it (a label or .align cut the block there)
    for name, sec in res.sections.items():
        for b, nxt in zip(sec.blocks, sec.blocks[1:]):
            if not (isinstance(b, gtirb.CodeBlock) and isinstance(nxt, gtirb.CodeBlock) and b.size and nxt.size):
                continue
            lastit = [ln for (s_, o, ln, z) in items if s_ == name and z and o + z == b.offset + b.size]
            first_next = [ln for (s_, o, ln, z) in items if s_ == name and o == nxt.offset and z]
            if lastit and lastit[0].split()[0] in ("nop", "lea", "mov", "movl", "movw", "cmpb") and first_next and first_next[0].split()[0] in MN:
                if not any(e.target is nxt and e.label.type == gtirb.Edge.Type.Fallthrough for e in res.cfg.out_edges(b)):
                    return f"`{lastit[0]}` at the end of the block at {name}+{b.offset} does not fall through to the code that follows it"
    # ---- data conversion: a block that holds no instruction and that nothing reaches is data (unless it starts an executable section)
    for name, sec in res.sections.items():
        for k, b in enumerate(sec.blocks):
            inside = [(o, l) for (s_, o, l, z) in items if s_ == name and b.offset <= o < b.offset + b.size]
            has_code = any(l.split()[0] in MN for _, l in inside)
            reached = any(True for _ in res.cfg.in_edges(b)) if isinstance(b, gtirb.CodeBlock) else False
            first_exec = k == 0 and gtirb.Section.Flag.Executable in sec.flags and not unreachable
            if b.size and not has_code and not reached and not first_exec and isinstance(b, gtirb.CodeBlock):
                return f"block {name}+{b.offset} holds only data, nothing reaches it, yet it is a code block"
            if has_code and isinstance(b, gtirb.DataBlock):
                return f"block {name}+{b.offset} holds instructions but is a data block"
    return None


class C12(Prop):
    id = "C12"
    gens = []
    prop_file = "Properties/C12.v"
    extract = ("asm", "ExtractAsm.v", "asm_main.ml", "Asm_model")
    allowed_axioms = set()
    trusted_base = ["Coq 8.16.1 kernel",
                    "hand model Asm/Model.v of the assembler's streamer classes and finalize(), as a state machine over the events LLVM MC delivers; tied by "
                    "logging the events the real streamer receives and comparing the extracted model's result with Assembler.Result (blocks, kinds, "
                    "expressions, sizes, alignment, symbols, edges, proxies, error class)",
                    "LLVM MC (parsing, encoding, fixups) is outside the model: its events are the model's inputs; capstone is the independent disassembler of the oracle",
                    "extraction: ExtrOcamlBasic only; OCaml driver ocaml/zutil.ml + asm_main.ml"]
    assumptions = ["CFI directives, symbol attributes and symver directives are not in the generated vocabulary",
                   "AArch64 / MIPS32: the size recorded for an instruction operand, and the edges of MIPS `b` and `jr $ra`, are compared with the model "
                   "but not judged by the oracle"]
    level_rule = ("random assembly texts of 1-9 lines over: nop, jmp/jne/call to labels, module symbols (code, proxy, data, no referent) and undefined "
                  "names, @PLT and @GOTPCREL operands, indirect jmp/call, ret, lea/mov with symbolic operands (with addends), .byte/.long/.zero/.quad "
                  "(symbols, sums, differences), .ascii/.string/.asciz, .uleb128/.sleb128, .align, section switches; PIE and non-PIE targets; "
                  "allow_undef_symbols on and off; plus 250 / 2500 texts for each of X64 ELF in Intel syntax, X64 PE, IA32 PE (AT&T and Intel), "
                  "AArch64 ELF and MIPS32 ELF from per-target vocabularies (direct and indirect transfers incl. through memory operands, "
                  ":got: / :lo12: / :got_lo12: and %hi / %lo / %got / %call16 operands, data directives, section switches)")

    def cases(self, tier, tag):
        rnd = C.rng(tag)
        n = {"quick": 1500, "thorough": 12000}[tier]
        out = []
        for _ in range(n):
            undef = rnd.random() < 0.4
            out.append((asmgen.gen_text(rnd, undef), rnd.random() < 0.5, undef, rnd.random() < 0.1))
        return out

    def cases_mt(self, tier, tag):
        """the other targets of the property: (target, items, pie, allow_undef, trivially_unreachable)"""
        rnd = C.rng(tag)
        n = {"quick": 250, "thorough": 2500}[tier]
        out = []
        for target in asmmt.TARGETS:
            for _ in range(n):
                undef = rnd.random() < 0.4
                out.append((target, asmmt.gen_items(rnd, target, undef), rnd.random() < 0.5, undef, rnd.random() < 0.1))
        return out

    def run_mt(self, c):
        return asmmt.run(c[0], c[1], c[2], c[3], unreachable=c[4])

    def correspondence(self, tier, ctx):
        cases = self.cases(tier, "c12")
        runs = [asmgen.run_assembler(c, p, u, unreachable=x) for c, p, u, x in cases]
        self._runs = list(zip(cases, runs))
        got = C.run_driver("asm", [r[0] for r in runs])
        dis = [{"text": c[0], "implementation": r[1][:400], "model": g[:400]} for c, r, g in zip(cases, runs, got) if r[1] != g]
        errs = {}
        for r in runs:
            if r[1].startswith("err"):
                errs[r[1]] = errs.get(r[1], 0) + 1
        # X64 ELF Intel syntax, X64 PE, IA32 PE (both syntaxes), AArch64, MIPS32
        mt = self.cases_mt(tier, "c12-mt")
        mruns = [self.run_mt(c) for c in mt]
        self._mruns = list(zip(mt, mruns))
        mgot = C.run_driver("asm", [r[0] for r in mruns])
        dis += [{"target": c[0], "text": [it["line"] for it in c[1]], "implementation": r[1][:400], "model": g[:400]} for c, r, g in zip(mt, mruns, mgot) if r[1] != g]
        # create_ir(): the IR's operand-size table against Asm/CreateIR.v, on multi-section programs
        from harness import asmir
        rnd_ir = C.rng("c12-ir-corr")
        ir_lines, ir_impl, ir_text = [], [], []
        for _ in range(300 if tier == "quick" else 2000):
            text, _v = asmir.check(rnd_ir)
            if asmir.LAST["line"] is not None and asmir.LAST["impl"] is not None:
                ir_lines.append(asmir.LAST["line"])
                ir_impl.append(asmir.LAST["impl"])
                ir_text.append(text)
        ir_got = C.run_driver("asm", ir_lines)
        dis += [{"create_ir": t, "implementation": e, "model": g} for t, e, g in zip(ir_text, ir_impl, ir_got) if e != g]
        per_target = {}
        for c, r in zip(mt, mruns):
            d = per_target.setdefault(c[0], {"texts": 0, "errors": 0})
            d["texts"] += 1
            d["errors"] += 1 if r[1].startswith("err") else 0
        return dict(evaluations=len(runs) + len(mruns) + len(ir_lines), distinct_nontrivial=len({r[0] for r in runs} | {r[0] for r in mruns} | set(ir_lines)),
                    samples=[{"chunks": c[0], "result": r[1][:200]} for c, r in list(zip(cases, runs))[:3]] +
                            [{"target": c[0], "text": [it["line"] for it in c[1]], "result": r[1][:200]} for c, r in list(zip(mt, mruns))[:6:2]],
                    disagreements=dis[:20], dist={"texts": len(cases), "errors": errs, "other_targets": per_target, "create_ir_programs": len(ir_lines)})

    def oracle(self, tier, ctx, boosted):
        pairs = getattr(self, "_runs", None)
        if pairs is None or boosted:
            cases = self.cases("thorough" if boosted else tier, "c12-boost")
            pairs = (pairs or []) + [(c, asmgen.run_assembler(c[0], c[1], c[2], unreachable=c[3])) for c in cases]
        bads = []
        for (chunks, pie, undef, unreach), (line, out, res, msyms) in pairs:
            if res is None:
                # a text the assembler refuses: only as unsupported / undefined / redefined / syntax error, never by an assertion or
                # a stray exception (every generated text is built from the supported vocabulary)
                if out.startswith("err") and out.split()[1] not in ("UnsupportedAssemblyError", "UndefSymbolError", "MultipleDefinitionsError", "AsmSyntaxError"):
                    bads.append(dict(what=f"assembling a text of the supported vocabulary raises {out.split()[1]}", input={"text": chunks[0], "pie": pie, "allow_undef": undef}, finding=None))
                continue
            v = check_result(chunks[0], res, msyms, pie, unreach)
            if v:
                bads.append(dict(what=v, input={"text": chunks[0], "pie": pie, "allow_undef": undef}, finding=None))
        mpairs = getattr(self, "_mruns", None)
        if mpairs is None or boosted:
            mt = self.cases_mt("thorough" if boosted else tier, "c12-mt-boost")
            mpairs = (mpairs or []) + [(c, self.run_mt(c)) for c in mt]
        for (target, items, pie, undef, unreach, *_), (line, out, res, msyms) in mpairs:
            text = [it["line"] for it in items]
            if res is None:
                if out.startswith("err") and out.split()[1] not in ("UnsupportedAssemblyError", "UndefSymbolError", "MultipleDefinitionsError", "AsmSyntaxError"):
                    bads.append(dict(what=f"{target}: assembling a text of the supported vocabulary raises {out.split()[1]}", input={"target": target, "text": text, "pie": pie, "allow_undef": undef}, finding=None))
                continue
            v = asmmt.check(target, items, res, msyms, pie, unreach)
            if v:
                bads.append(dict(what=f"{target}: {v}", input={"target": target, "text": text, "pie": pie, "allow_undef": undef}, finding=None))
        pairs = list(pairs) + list(mpairs)
        # the IR a result turns into (create_ir / gtirb-as): programs with several sections, laid out by the oracle's own size table
        from harness import asmir
        rnd = C.rng("c12-ir-boost" if boosted else "c12-ir")
        nir = 1500 if boosted or tier == "thorough" else 300
        for _ in range(nir):
            text, v = asmir.check(rnd)
            if v:
                bads.append(dict(what="IR of the result: " + v, input={"text": text, "create_ir": True}, finding=None))
        pairs = pairs + [None] * nir
        return dict(evaluations=len(pairs), violations=bads[:10], samples=[{"oracle": "layout, disassembly, labels, edges per instruction kind, operands and data conversion checked against the text"}])

    def replay(self, path):
        import json
        print(json.dumps(json.load(open(path)), indent=1)[:3000])
        return 0


PROP = C12()
