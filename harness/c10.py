"""C10: no-op rewrites are the identity; split/join of byte intervals round-trips; alignment survives rewriting."""
from harness import irgen
from harness.c11 import full_dump
from harness.ir import IRProp
from vlib import common as C

TABLES = ("comments", "padding", "symbolicExpressionSizes")


# ----------------------------------------------------------------------------- random byte intervals for split / join
def gen_interval(rnd):
    size = rnd.randint(1, 24)
    init = size if rnd.random() < 0.7 else rnd.randint(0, size)
    blocks, offs = [], set()
    pos = rnd.randint(0, 2)
    bid = 0
    while pos < size and len(blocks) < 6:
        sz = rnd.choice([0, 1, 1, 2, 3, 4]) if rnd.random() < 0.9 else rnd.randint(1, 8)
        sz = min(sz, size - pos)
        if pos not in offs:
            blocks.append((bid, pos, sz, rnd.random() < 0.6))
            offs.add(pos)
            bid += 1
        k = rnd.random()
        if sz >= 3 and rnd.random() < 0.25 and pos + 1 not in offs and len(blocks) < 5:
            # a short block nested inside this one; the next block then overlaps only this block's tail
            blocks.append((bid, pos + 1, 1, rnd.random() < 0.6))
            offs.add(pos + 1)
            bid += 1
            pos += sz - 1
            continue
        pos += sz + (rnd.randint(1, 2) if k < 0.25 else 0) - (1 if (k > 0.85 and sz > 1) else 0)     # gaps and overlaps
        if sz == 0 and k >= 0.25:
            # a zero-sized block and a block that starts where it sits (only where no earlier block reaches: the choice of the "last"
            # block among equal offsets inside one group is left to the iteration order of a set and is not modelled)
            if rnd.random() < 0.5 and all(p_ + s_ <= pos for (_, p_, s_, _) in blocks) and pos < size:
                sz2 = min(rnd.choice([1, 2, 3]), size - pos)
                blocks.append((bid, pos, sz2, rnd.random() < 0.6))
                bid += 1
                pos += sz2
            else:
                pos += 1
    symex = {o: 100 + o for o in range(size) if rnd.random() < 0.15}
    tabs = [{o: 10 * t + o for o in range(size) if rnd.random() < 0.1} for t in range(3)]
    align = {b[0]: rnd.choice([2, 4, 8]) for b in blocks if rnd.random() < 0.2}
    return dict(size=size, init=init, blocks=blocks, symex=symex, tabs=tabs, align=align, addr=0x1000 + rnd.choice([0, 0, 3, 8]))


def model_line(c):
    p = ["splitjoin", str(c["addr"]), str(c["size"]), (bytes(range(1, c["init"] + 1)).hex() or "-"), str(len(c["blocks"]))]
    for b in sorted(c["blocks"], key=lambda b: (b[1], b[2])):
        p.append(f"{b[0]} {b[1]} {b[2]} {1 if b[3] else 0}")
    p.append(str(len(c["symex"])) + " " + " ".join(f"{o} {v}" for o, v in sorted(c["symex"].items())))
    for t in c["tabs"]:
        p.append(str(len(t)) + " " + " ".join(f"{o} {v}" for o, v in sorted(t.items())))
    p.append(str(len(c["align"])) + " " + " ".join(f"{b} {a}" for b, a in sorted(c["align"].items())))
    return " ".join(p)


def build_interval(c):
    import gtirb
    ir = gtirb.IR()
    m = gtirb.Module(name="m", isa=gtirb.Module.ISA.X64, file_format=gtirb.Module.FileFormat.ELF, byte_order=gtirb.Module.ByteOrder.Little, ir=ir)
    sec = gtirb.Section(name=".text", module=m)
    bi = gtirb.ByteInterval(contents=bytes(range(1, c["init"] + 1)), size=c["size"], address=c["addr"], section=sec)
    blocks = {}
    for (bid, off, sz, code) in c["blocks"]:
        blocks[bid] = (gtirb.CodeBlock if code else gtirb.DataBlock)(offset=off, size=sz, byte_interval=bi)
    syms = {}
    for o, v in c["symex"].items():
        s = gtirb.Symbol(f"x{v}", module=m)
        syms[id(s)] = v
        bi.symbolic_expressions[o] = gtirb.SymAddrConst(0, s)
    for t, name in enumerate(TABLES):
        m.aux_data[name] = gtirb.AuxData({gtirb.Offset(bi, o): (f"c{v}" if t == 0 else v) for o, v in c["tabs"][t].items()},
                                         "mapping<Offset,string>" if t == 0 else "mapping<Offset,uint64_t>")
    m.aux_data["alignment"] = gtirb.AuxData({blocks[b]: a for b, a in c["align"].items()}, "mapping<UUID,uint64_t>")
    return ir, m, bi, blocks, syms


def dump_interval(m, iv, blocks, syms):
    import gtirb
    bid = {id(b): k for k, b in blocks.items()}
    h = bytes(iv.contents).hex() or "-"

    def dm(d):
        return ",".join(sorted(f"{k}:{v}" for k, v in d))
    tabs = []
    for t, name in enumerate(TABLES):
        rows = [(o.displacement, int(v[1:]) if t == 0 else v) for o, v in m.aux_data[name].data.items() if o.element_id is iv]
        tabs.append("T{" + dm(rows) + "}")
    bl = sorted((str(bid[id(b)]) if id(b) in bid else "pad") + f"@{b.offset}+{b.size}" + ("c" if isinstance(b, gtirb.CodeBlock) else "d") for b in iv.blocks)
    return f"[{iv.address} {iv.size} {h} B{{" + ",".join(bl) + "} X{" + dm((o, syms[id(e.symbol)]) for o, e in iv.symbolic_expressions.items()) + "} " + " ".join(tabs) + "]"


def run_splitjoin(c):
    from gtirb_rewriting.intervalutils import join_byte_intervals, split_byte_interval
    ir, m, bi, blocks, syms = build_interval(c)
    before = dump_interval(m, bi, blocks, syms)
    addr_before = {k: b.address for k, b in blocks.items()}
    bytes_before = {k: bytes(b.contents) for k, b in blocks.items()}
    alignment = m.aux_data["alignment"].data
    parts = split_byte_interval(bi, alignment)
    s1 = " ".join(dump_interval(m, p, blocks, syms) for p in parts)
    facts = dict(addr_kept=all(blocks[k].address == addr_before[k] for k in blocks),
                 bytes_kept=all(bytes(blocks[k].contents) == bytes_before[k] for k in blocks),
                 own_interval=True)
    # every group of overlapping blocks has its own interval
    for p in parts:
        bs = sorted((b for b in p.blocks), key=lambda b: b.offset)
        end = None
        for k, b in enumerate(bs):
            if k and end is not None and b.offset >= end and not (b.offset == end and False):
                facts["own_interval"] = False
            end = max(end or 0, b.offset + b.size)
    try:
        j = join_byte_intervals(parts, b"\x90", alignment)
        s2 = dump_interval(m, j, blocks, syms)
    except Exception as e:   # noqa
        s2 = "err " + ("ValueError" if type(e).__name__ == "PaddingError" else type(e).__name__)
    return s1 + " || " + s2, before, facts, (m, blocks)


# ----------------------------------------------------------------------------- joining intervals that were never one interval
def gen_parts(rnd):
    parts, bid, addr = [], 0, 0x1000 + rnd.choice([0, 0, 5])
    for _ in range(rnd.randint(2, 4)):
        size = rnd.randint(1, 8)
        init = size if rnd.random() < 0.8 else rnd.randint(0, size)
        blocks, pos = [], 0
        if parts and rnd.random() < 0.15:
            pos = size            # an interval without blocks (a rewrite deleted its only block)
        while pos < size and len(blocks) < 3:
            sz = min(rnd.choice([1, 1, 2, 3]), size - pos)
            blocks.append((bid, pos, sz, rnd.random() < 0.6))
            bid += 1
            pos += sz + (1 if rnd.random() < 0.2 else 0)
        parts.append(dict(size=size, init=init, blocks=blocks, symex={o: 100 + bid * 10 + o for o in range(size) if rnd.random() < 0.15},
                          tabs=[{o: 100 * t + 10 * bid + o for o in range(size) if rnd.random() < 0.12} for t in range(3)], addr=addr))
        addr += size
    align = {b[0]: rnd.choice([2, 4]) for p in parts for b in p["blocks"] if rnd.random() < 0.15}
    return dict(parts=parts, align=align)


def join_line(c):
    p = ["join", str(len(c["parts"]))]
    fill = 1
    for part in c["parts"]:
        data = bytes((fill + k) % 251 + 1 for k in range(part["init"]))
        fill += part["init"]
        p += [str(part["addr"]), str(part["size"]), data.hex() or "-", str(len(part["blocks"]))]
        for b in part["blocks"]:
            p.append(f"{b[0]} {b[1]} {b[2]} {1 if b[3] else 0}")
        p.append(str(len(part["symex"])) + " " + " ".join(f"{o} {v}" for o, v in sorted(part["symex"].items())))
        for t in part["tabs"]:
            p.append(str(len(t)) + " " + " ".join(f"{o} {v}" for o, v in sorted(t.items())))
    p.append(str(len(c["align"])) + " " + " ".join(f"{b} {a}" for b, a in sorted(c["align"].items())))
    return " ".join(p)


def run_join(c):
    import gtirb
    from gtirb_rewriting.intervalutils import join_byte_intervals
    ir = gtirb.IR()
    m = gtirb.Module(name="m", isa=gtirb.Module.ISA.X64, file_format=gtirb.Module.FileFormat.ELF, byte_order=gtirb.Module.ByteOrder.Little, ir=ir)
    sec = gtirb.Section(name=".text", module=m)
    ivs, blocks, syms = [], {}, {}
    tabs = [{} for _ in range(3)]
    fill = 1
    for part in c["parts"]:
        data = bytes((fill + k) % 251 + 1 for k in range(part["init"]))
        fill += part["init"]
        bi = gtirb.ByteInterval(contents=data, size=part["size"], address=part["addr"], section=sec)
        for (bid, off, sz, code) in part["blocks"]:
            blocks[bid] = (gtirb.CodeBlock if code else gtirb.DataBlock)(offset=off, size=sz, byte_interval=bi)
        for o, v in part["symex"].items():
            s = gtirb.Symbol(f"x{v}", module=m)
            syms[id(s)] = v
            bi.symbolic_expressions[o] = gtirb.SymAddrConst(0, s)
        for t in range(3):
            for o, v in part["tabs"][t].items():
                tabs[t][gtirb.Offset(bi, o)] = f"c{v}" if t == 0 else v
        ivs.append(bi)
    for t, name in enumerate(TABLES):
        m.aux_data[name] = gtirb.AuxData(tabs[t], "mapping<Offset,string>" if t == 0 else "mapping<Offset,uint64_t>")
    m.aux_data["alignment"] = gtirb.AuxData({blocks[b]: a for b, a in c["align"].items()}, "mapping<UUID,uint64_t>")
    try:
        j = join_byte_intervals(ivs, b"\x90", m.aux_data["alignment"].data)
        out = dump_interval(m, j, blocks, syms)
        left = [name for name in TABLES for o in m.aux_data[name].data if o.element_id is not j]
        if left:
            out += " LEFTOVER " + ",".join(sorted(set(left)))
    except Exception as e:   # noqa
        out = "err " + ("ValueError" if type(e).__name__ == "PaddingError" else type(e).__name__)
    return out


class C10(IRProp):
    id = "C10"
    prop_file = "Properties/C10.v"
    tag = "c10"
    extract = ("iu", "ExtractIU.v", "iu_main.ml", "Iu_model")
    genopts = dict()
    trusted_base = ["Coq 8.16.1 kernel", "hand model IU/Model.v of intervalutils.split_byte_interval / join_byte_intervals (blocks pre-sorted by offset and size), tied by running the extracted model against the implementation on random intervals (both the "
                    "split result and the joined result are compared)", "extraction: ExtrOcamlBasic only; OCaml driver ocaml/zutil.ml + iu_main.ml"]
    assumptions = ["two blocks of an interval start at the same offset only as a zero-sized block in front of a sized one that no earlier block overlaps (inside one group the order of equal keys in max() over a set is not modelled)",
                   "alignment entries on intervals themselves are not generated"]
    level_rule = ("random byte intervals of 1-24 bytes, fully or partly initialized, up to 6 code/data blocks with gaps, overlaps and zero-sized "
                  "blocks, symbolic expressions, interval-keyed entries in three offset tables, alignment entries on blocks; plus the IR cases for "
                  "the no-op and alignment clauses")
    oracle_text = ("apply() with no modification leaves the complete dump unchanged; split keeps every block's address and bytes and gives every "
                   "group of overlapping blocks its own interval; join(split(I)) == I for fully initialized intervals whose alignment already "
                   "holds; after any rewrite every block with an alignment entry (old or added by a patch) is aligned and all bytes outside the "
                   "listing edit are nops behind code / zeros behind data, covered by blocks")

    def cases10(self, tier, tag):
        rnd = C.rng(tag)
        return [gen_interval(rnd) for _ in range({"quick": 3000, "thorough": 20000, "boost": 8000}[tier])]

    def correspondence(self, tier, ctx):
        cases = self.cases10(tier, "c10")
        runs = [run_splitjoin(c) for c in cases]
        self._sj = list(zip(cases, runs))
        lines = [model_line(c) for c in cases]
        got = C.run_driver("iu", lines)
        dis = [{"case": l, "implementation": r[0], "model": g} for l, r, g in zip(lines, runs, got) if r[0] != g]
        # joining intervals that were never one interval (what apply() does after patches put entries into later intervals)
        rnd = C.rng("c10-join")
        jcases = [gen_parts(rnd) for _ in range(len(cases) // 2)]
        jlines = [join_line(c) for c in jcases]
        jimpl = [run_join(c) for c in jcases]
        self._jj = list(zip(jcases, jimpl))
        jgot = C.run_driver("iu", jlines)
        dis += [{"case": l, "implementation": o, "model": g} for l, o, g in zip(jlines, jimpl, jgot) if o != g]
        lines = lines + jlines
        return dict(evaluations=len(lines), distinct_nontrivial=len(set(lines)), samples=[{"case": l[:150], "result": r[0][:250]} for l, r in list(zip(lines, runs))[:3]],
                    disagreements=dis[:20], dist={"intervals": len(cases), "partly_initialized": sum(1 for c in cases if c["init"] < c["size"]),
                                                  "with_overlaps": sum(1 for c in cases if any(a[1] + a[2] > b[1] for a, b in zip(c["blocks"], c["blocks"][1:]))),
                                                  "join_errors": sum(1 for r in runs if "err" in r[0])})

    def oracle(self, tier, ctx, boosted):
        pairs = getattr(self, "_sj", None)
        if pairs is None or boosted:
            cases = self.cases10("boost" if boosted else tier, "c10-boost")
            pairs = (pairs or []) + [(c, run_splitjoin(c)) for c in cases]
        bads = []
        for c, (out, before, facts, _) in pairs:
            for k, ok in facts.items():
                if not ok:
                    bads.append(dict(what=f"split_byte_interval: {k} violated", input=c, finding=None))
            aligned = all((c["addr"] + off) % c["align"][bid] == 0 for (bid, off, sz, code) in c["blocks"] if bid in c["align"])
            if c["init"] == c["size"] and aligned and "err" not in out:
                after = out.split(" || ")[1]
                if after != before:
                    bads.append(dict(what=f"join(split(I)) != I: {before} -> {after}", input=c, finding=None))
        # joined intervals keep every annotation of their parts
        import re
        jj = getattr(self, "_jj", None)
        if jj is None or boosted:
            rnd = C.rng("c10-join-boost")
            cs = [gen_parts(rnd) for _ in range(3000)]
            jj = (jj or []) + [(c, run_join(c)) for c in cs]
        for c, out in jj:
            if out.startswith("err"):
                continue
            want = sorted(v for part in c["parts"] for t in part["tabs"] for v in t.values())
            got = sorted(int(x.split(":")[1]) for grp in re.findall(r"T\{([^}]*)\}", out) for x in grp.split(",") if x)
            wantx = sorted(v for part in c["parts"] for v in part["symex"].values())
            gotx = sorted(int(x.split(":")[1]) for grp in re.findall(r"X\{([^}]*)\}", out) for x in grp.split(",") if x)
            if want != got or wantx != gotx or "LEFTOVER" in out:
                bads.append(dict(what=f"join_byte_intervals loses or leaves behind annotations: table values {got} (expected {want}), expressions {gotx} (expected {wantx})",
                                 input=c, finding=None))
        # the no-op and alignment clauses on whole rewrites
        n = 0
        for sd in self.seeds("quick" if not boosted else "boost", self.tag + "-ir")[: (150 if not boosted else 600)]:
            n += 1
            v = self.check_rewrite(sd)
            if v:
                bads.append(dict(what=v[0], input={"seed": sd}, finding=v[1]))
        bads = [b for b in bads if b["finding"] is None][:10] + [b for b in bads if b["finding"]][:3]
        return dict(evaluations=len(pairs) + n, violations=bads, samples=[{"oracle": self.oracle_text}])

    def check_rewrite(self, sd):
        import gtirb
        import gtirb_rewriting
        case = self.make_case(sd)
        # only alignment requirements that hold in the input
        a, keep = 0x1000, {}
        for i in range(len(case.blocks)):
            if i in case.align and a % case.align[i] == 0:
                keep[i] = case.align[i]
            a += case.size(i)
        case.align = keep
        import random
        rnd = random.Random(sd)
        patched_align = False
        mods = []
        for (i, t, off, ln, patch, tp) in case.mods:
            if isinstance(patch, str) and rnd.random() < 0.3:
                patch, patched_align = "nop\n.align 4\nnop", True
            mods.append((i, t, off, ln, patch, tp))
        case.mods = mods
        # (1) no modifications at all
        B = irgen.build(case)
        before = full_dump(B.m)
        gtirb_rewriting.RewritingContext(B.m, B.fobjs).apply()
        after = full_dump(B.m)
        if before != after:
            import json
            a, b = json.loads(before), json.loads(after)
            diff = [k for k in a if a[k] != b.get(k)]
            return (f"apply() without modifications changes {diff}: {[(a[k], b[k]) for k in diff][:1]}"[:500], None)
        # (2) alignment after a real rewrite
        r = irgen.run_impl(case, want_model_line=False)
        if r["error"] is not None:
            return None
        m = r["built"].m
        for b, a in m.aux_data["alignment"].data.items():
            if isinstance(b, gtirb.ByteBlock) and b.address is not None and b.address % a != 0:
                # known finding: a block created by `.align` inside a patch keeps its alignment entry but nothing pads in front of it
                original = any(b is g for g in r["built"].gbs)
                return (f"block at {b.address:#x} has alignment {a}", "C10-align-directive-inside-a-patch" if (patched_align and not original) else None)
        return None

    def spec(self, seed, case, r):
        return []


PROP = C10()
