"""C10: no-op rewrites are the identity; split/join of byte intervals round-trips; alignment survives rewriting."""
from harness import irgen
from harness.c11 import full_dump
from harness.ir import IRProp
from vlib import common as C

TABLES = ("comments", "padding", "symbolicExpressionSizes")


# ----------------------------------------------------------------------------- random byte intervals for split / join
NOPS = ["90", "6690", "0f1f00", "1f2003d5", "00000000"]
ISAS = [("X64", "ELF", "x86"), ("IA32", "PE", "x86"), ("ARM64", "ELF", "arm64"), ("MIPS32", "ELF", "mips")]


def gen_nop(rnd):
    """how join_byte_intervals learns the nop: as its nop argument, through nop_encodings (which wins over the argument), or not at all
    (then it asks the ABI of the module)"""
    k = rnd.random()
    if k < 0.45:
        return ("arg", rnd.choice(NOPS[:1] * 3 + NOPS))
    if k < 0.6:
        return ("enc", rnd.choice(NOPS))
    if k < 0.7:
        return ("both", rnd.choice(NOPS))
    return ("abi", rnd.randrange(len(ISAS)))


def nop_token(c):
    how, v = c.get("nop", ("arg", "90"))
    return f"abi:{v}" if how == "abi" else v


def nop_args(c):
    import gtirb
    how, v = c.get("nop", ("arg", "90"))
    D = gtirb.CodeBlock.DecodeMode.Default
    if how == "arg":
        return dict(nop=bytes.fromhex(v))
    if how == "enc":
        return dict(nop_encodings={D: bytes.fromhex(v)})
    if how == "both":
        return dict(nop=b"\xcc" * (len(v) // 2), nop_encodings={D: bytes.fromhex(v)})
    return dict()


def module_kind(c):
    import gtirb
    how, v = c.get("nop", ("arg", "90"))
    isa, fmt, _ = ISAS[v] if how == "abi" else ISAS[0]
    return getattr(gtirb.Module.ISA, isa), getattr(gtirb.Module.FileFormat, fmt)


def padding_decodes_as_nops(c, j, blocks):
    """the bytes join_byte_intervals adds behind code, read by a disassembler for the module's ISA: nothing but nops (ABI nops, joins of
    explicit parts that all have blocks).  A padding block starts with whatever initialized bytes of its part lay behind the part's
    last block; the rest of it was added."""
    import capstone
    import gtirb
    how, v = c.get("nop", ("arg", "90"))
    if how != "abi" or "parts" not in c or any(not p["blocks"] for p in c["parts"]):
        return None
    arch = {"x86": (capstone.CS_ARCH_X86, capstone.CS_MODE_64 if v == 0 else capstone.CS_MODE_32), "arm64": (capstone.CS_ARCH_ARM64, capstone.CS_MODE_ARM),
            "mips": (capstone.CS_ARCH_MIPS, capstone.CS_MODE_MIPS32 + capstone.CS_MODE_BIG_ENDIAN)}[ISAS[v][2]]
    md = capstone.Cs(*arch)
    gap_at = {}
    for p in c["parts"]:
        lb = max(p["blocks"], key=lambda b: b[1])
        end = blocks[lb[0]].offset + blocks[lb[0]].size          # where the part's last block ends in the joined interval
        if lb[1] + lb[2] <= p["init"]:                           # (a block reaching into uninitialized bytes: the fill starts inside it)
            gap_at[end] = p["init"] - (lb[1] + lb[2])
    for b in j.blocks:
        if isinstance(b, gtirb.CodeBlock) and b.size and not getattr(b, "_c10_original", False) and b.offset in gap_at:
            data = bytes(j.contents[b.offset + gap_at[b.offset]:b.offset + b.size])
            insns = list(md.disasm(data, 0))
            if sum(i.size for i in insns) != len(data) or any(i.mnemonic != "nop" for i in insns):
                return f"the bytes added behind code on {ISAS[v][0]} are {data.hex()}, which a disassembler reads as {[i.mnemonic + ' ' + i.op_str for i in insns][:3]}, not as nops"
    return None


def padding_blocks_ok(j):
    """blocks that join_byte_intervals made are of the kind of the block in front of them (code behind code, data behind data or
    nothing)"""
    import gtirb
    bs = sorted(j.blocks, key=lambda b: (b.offset, not getattr(b, "_c10_original", False)))
    for p in bs:
        if getattr(p, "_c10_original", False) or not p.size:
            continue
        before = [o for o in bs if getattr(o, "_c10_original", False) and o.offset <= p.offset]
        lastb = max(before, key=lambda b: b.offset, default=None)
        ties = [o for o in before if o.offset == lastb.offset] if lastb is not None else []
        if len({isinstance(o, gtirb.CodeBlock) for o in ties}) > 1:
            continue                        # blocks of both kinds at the last offset: either may count as the last block
        want_code = isinstance(lastb, gtirb.CodeBlock)
        if isinstance(p, gtirb.CodeBlock) != want_code:
            return (f"the padding block at offset {p.offset} is a {'code' if isinstance(p, gtirb.CodeBlock) else 'data'} block behind "
                    f"{'a code block' if want_code else 'a data block' if lastb is not None else 'no block'}")
    return None


def nop_len(nop):
    how, v = nop
    return {0: 1, 1: 1, 2: 4, 3: 4}[v] if how == "abi" else len(v) // 2


def scale(c, u):
    """every offset, size and boundary of a case multiplied by u: the layouts of a fixed-width ISA (so that padding is a whole number
    of 4-byte nops)"""
    def part(p):
        p["size"] *= u
        p["init"] *= u
        p["blocks"] = [(b, o * u, z * u, k) for (b, o, z, k) in p["blocks"]]
        p["symex"] = {o * u: v for o, v in p["symex"].items()}
        p["tabs"] = [{o * u: v for o, v in t.items()} for t in p["tabs"]]
        p["addr"] = 0x1000 + (p["addr"] - 0x1000) * u
    for p in c.get("parts", [c]):
        part(p)
    c["align"] = {b: a * u for b, a in c["align"].items()}
    return c


def gen_interval(rnd):
    size = rnd.randint(1, 24)
    init = size if rnd.random() < 0.7 else rnd.randint(0, size)
    blocks, offs = [], set()
    pos = rnd.randint(0, 2)
    bid = 0
    while pos < size and len(blocks) < 6:
        sz = rnd.choice([0, 1, 1, 2, 3, 4]) if rnd.random() < 0.9 else rnd.randint(1, 8)
        sz = min(sz, size - pos)
        if pos not in offs:
            blocks.append((bid, pos, sz, rnd.random() < 0.6))
            offs.add(pos)
            bid += 1
        k = rnd.random()
        if sz >= 3 and rnd.random() < 0.25 and pos + 1 not in offs and len(blocks) < 5:
            # a short block nested inside this one; the next block then overlaps only this block's tail
            blocks.append((bid, pos + 1, 1, rnd.random() < 0.6))
            offs.add(pos + 1)
            bid += 1
            pos += sz - 1
            continue
        pos += sz + (rnd.randint(1, 2) if k < 0.25 else 0) - (1 if (k > 0.85 and sz > 1) else 0)     # gaps and overlaps
        if sz == 0 and k >= 0.25:
            # a zero-sized block and a block that starts where it sits (only where no earlier block reaches: the choice of the "last"
            # block among equal offsets inside one group is left to the iteration order of a set and is not modelled)
            if rnd.random() < 0.5 and all(p_ + s_ <= pos for (_, p_, s_, _) in blocks) and pos < size:
                sz2 = min(rnd.choice([1, 2, 3]), size - pos)
                blocks.append((bid, pos, sz2, rnd.random() < 0.6))
                bid += 1
                pos += sz2
            else:
                pos += 1
    symex = {o: 100 + o for o in range(size) if rnd.random() < 0.15}
    tabs = [{o: 10 * t + o for o in range(size) if rnd.random() < 0.1} for t in range(3)]
    align = {b[0]: rnd.choice([2, 4, 8]) for b in blocks if rnd.random() < 0.2}
    c = dict(size=size, init=init, blocks=blocks, symex=symex, tabs=tabs, align=align, addr=0x1000 + rnd.choice([0, 0, 3, 8]), nop=gen_nop(rnd))
    if nop_len(c["nop"]) == 4 and size <= 12 and rnd.random() < 0.7:
        scale(c, 4)
    return c


def model_line(c):
    p = ["splitjoin", str(c["addr"]), str(c["size"]), (bytes(range(1, c["init"] + 1)).hex() or "-"), str(len(c["blocks"]))]
    for b in sorted(c["blocks"], key=lambda b: (b[1], b[2])):
        p.append(f"{b[0]} {b[1]} {b[2]} {1 if b[3] else 0}")
    p.append(str(len(c["symex"])) + " " + " ".join(f"{o} {v}" for o, v in sorted(c["symex"].items())))
    for t in c["tabs"]:
        p.append(str(len(t)) + " " + " ".join(f"{o} {v}" for o, v in sorted(t.items())))
    p.append(str(len(c["align"])) + " " + " ".join(f"{b} {a}" for b, a in sorted(c["align"].items())))
    p.append(nop_token(c))
    return " ".join(p)


def build_interval(c):
    import gtirb
    ir = gtirb.IR()
    isa, fmt = module_kind(c)
    m = gtirb.Module(name="m", isa=isa, file_format=fmt, byte_order=gtirb.Module.ByteOrder.Little, ir=ir)
    sec = gtirb.Section(name=".text", module=m)
    bi = gtirb.ByteInterval(contents=bytes(range(1, c["init"] + 1)), size=c["size"], address=c["addr"], section=sec)
    blocks = {}
    for (bid, off, sz, code) in c["blocks"]:
        blocks[bid] = (gtirb.CodeBlock if code else gtirb.DataBlock)(offset=off, size=sz, byte_interval=bi)
        blocks[bid]._c10_original = True
    syms = {}
    for o, v in c["symex"].items():
        s = gtirb.Symbol(f"x{v}", module=m)
        syms[id(s)] = v
        bi.symbolic_expressions[o] = gtirb.SymAddrConst(0, s)
    for t, name in enumerate(TABLES):
        m.aux_data[name] = gtirb.AuxData({gtirb.Offset(bi, o): (f"c{v}" if t == 0 else v) for o, v in c["tabs"][t].items()},
                                         "mapping<Offset,string>" if t == 0 else "mapping<Offset,uint64_t>")
    m.aux_data["alignment"] = gtirb.AuxData({blocks[b]: a for b, a in c["align"].items()}, "mapping<UUID,uint64_t>")
    return ir, m, bi, blocks, syms


def dump_interval(m, iv, blocks, syms):
    import gtirb
    bid = {id(b): k for k, b in blocks.items()}
    h = bytes(iv.contents).hex() or "-"

    def dm(d):
        return ",".join(sorted(f"{k}:{v}" for k, v in d))
    tabs = []
    for t, name in enumerate(TABLES):
        rows = [(o.displacement, int(v[1:]) if t == 0 else v) for o, v in m.aux_data[name].data.items() if o.element_id is iv]
        tabs.append("T{" + dm(rows) + "}")
    bl = sorted((str(bid[id(b)]) if id(b) in bid else "pad") + f"@{b.offset}+{b.size}" + ("c" if isinstance(b, gtirb.CodeBlock) else "d") for b in iv.blocks)
    return f"[{iv.address} {iv.size} {h} B{{" + ",".join(bl) + "} X{" + dm((o, syms[id(e.symbol)]) for o, e in iv.symbolic_expressions.items()) + "} " + " ".join(tabs) + "]"


def run_splitjoin(c):
    from gtirb_rewriting.intervalutils import join_byte_intervals, split_byte_interval
    ir, m, bi, blocks, syms = build_interval(c)
    before = dump_interval(m, bi, blocks, syms)
    addr_before = {k: b.address for k, b in blocks.items()}
    bytes_before = {k: bytes(b.contents) for k, b in blocks.items()}
    alignment = m.aux_data["alignment"].data
    parts = split_byte_interval(bi, alignment)
    s1 = " ".join(dump_interval(m, p, blocks, syms) for p in parts)
    facts = dict(addr_kept=all(blocks[k].address == addr_before[k] for k in blocks),
                 bytes_kept=all(bytes(blocks[k].contents) == bytes_before[k] for k in blocks),
                 own_interval=True)
    # every group of overlapping blocks has its own interval
    for p in parts:
        bs = sorted((b for b in p.blocks), key=lambda b: b.offset)
        end = None
        for k, b in enumerate(bs):
            if k and end is not None and b.offset >= end and not (b.offset == end and False):
                facts["own_interval"] = False
            end = max(end or 0, b.offset + b.size)
    try:
        j = join_byte_intervals(parts, alignment=alignment, **nop_args(c))
        s2 = dump_interval(m, j, blocks, syms)
        c["_pad"] = padding_blocks_ok(j) if all(off + sz <= c["init"] for (_, off, sz, _) in c["blocks"]) else None
        facts["size_kept"] = j.size == c["size"]
        facts["addr_kept_after_join"] = all(blocks[k].address == addr_before[k] for k in blocks)
    except Exception as e:   # noqa
        s2 = "err " + ("ValueError" if type(e).__name__ == "PaddingError" else type(e).__name__)
    return s1 + " || " + s2, before, facts, (m, blocks)


# ----------------------------------------------------------------------------- joining intervals that were never one interval
def gen_parts(rnd):
    parts, bid, addr = [], 0, 0x1000 + rnd.choice([0, 0, 5])
    for _ in range(rnd.randint(2, 4)):
        size = rnd.randint(1, 8)
        init = size if rnd.random() < 0.8 else rnd.randint(0, size)
        blocks, pos = [], 0
        if parts and rnd.random() < 0.15:
            pos = size            # an interval without blocks (a rewrite deleted its only block)
        while pos < size and len(blocks) < 3:
            sz = min(rnd.choice([1, 1, 2, 3]), size - pos)
            blocks.append((bid, pos, sz, rnd.random() < 0.6))
            bid += 1
            pos += sz + (1 if rnd.random() < 0.2 else 0)
        parts.append(dict(size=size, init=init, blocks=blocks, symex={o: 100 + bid * 10 + o for o in range(size) if rnd.random() < 0.15},
                          tabs=[{o: 100 * t + 10 * bid + o for o in range(size) if rnd.random() < 0.12} for t in range(3)], addr=addr))
        addr += size
    align = {b[0]: rnd.choice([2, 4]) for p in parts for b in p["blocks"] if rnd.random() < 0.15}
    c = dict(parts=parts, align=align, nop=gen_nop(rnd))
    if nop_len(c["nop"]) == 4 and rnd.random() < 0.7:
        scale(c, 4)
    return c


def join_line(c):
    p = ["join", str(len(c["parts"]))]
    fill = 1
    for part in c["parts"]:
        data = bytes((fill + k) % 251 + 1 for k in range(part["init"]))
        fill += part["init"]
        p += [str(part["addr"]), str(part["size"]), data.hex() or "-", str(len(part["blocks"]))]
        for b in part["blocks"]:
            p.append(f"{b[0]} {b[1]} {b[2]} {1 if b[3] else 0}")
        p.append(str(len(part["symex"])) + " " + " ".join(f"{o} {v}" for o, v in sorted(part["symex"].items())))
        for t in part["tabs"]:
            p.append(str(len(t)) + " " + " ".join(f"{o} {v}" for o, v in sorted(t.items())))
    p.append(str(len(c["align"])) + " " + " ".join(f"{b} {a}" for b, a in sorted(c["align"].items())))
    p.append(nop_token(c))
    return " ".join(p)


def run_join(c):
    import gtirb
    from gtirb_rewriting.intervalutils import join_byte_intervals
    ir = gtirb.IR()
    isa, fmt = module_kind(c)
    m = gtirb.Module(name="m", isa=isa, file_format=fmt, byte_order=gtirb.Module.ByteOrder.Little, ir=ir)
    sec = gtirb.Section(name=".text", module=m)
    ivs, blocks, syms = [], {}, {}
    tabs = [{} for _ in range(3)]
    fill = 1
    for part in c["parts"]:
        data = bytes((fill + k) % 251 + 1 for k in range(part["init"]))
        fill += part["init"]
        bi = gtirb.ByteInterval(contents=data, size=part["size"], address=part["addr"], section=sec)
        for (bid, off, sz, code) in part["blocks"]:
            blocks[bid] = (gtirb.CodeBlock if code else gtirb.DataBlock)(offset=off, size=sz, byte_interval=bi)
            blocks[bid]._c10_original = True
        for o, v in part["symex"].items():
            s = gtirb.Symbol(f"x{v}", module=m)
            syms[id(s)] = v
            bi.symbolic_expressions[o] = gtirb.SymAddrConst(0, s)
        for t in range(3):
            for o, v in part["tabs"][t].items():
                tabs[t][gtirb.Offset(bi, o)] = f"c{v}" if t == 0 else v
        ivs.append(bi)
    for t, name in enumerate(TABLES):
        m.aux_data[name] = gtirb.AuxData(tabs[t], "mapping<Offset,string>" if t == 0 else "mapping<Offset,uint64_t>")
    m.aux_data["alignment"] = gtirb.AuxData({blocks[b]: a for b, a in c["align"].items()}, "mapping<UUID,uint64_t>")
    try:
        j = join_byte_intervals(ivs, alignment=m.aux_data["alignment"].data, **nop_args(c))
        out = dump_interval(m, j, blocks, syms)
        tidy = all(off + sz <= part["init"] for part in c["parts"] for (_, off, sz, _) in part["blocks"])      # no block reaches into uninitialized bytes
        c["_pad"] = padding_decodes_as_nops(c, j, blocks) or (padding_blocks_ok(j) if tidy else None)
        left = [name for name in TABLES for o in m.aux_data[name].data if o.element_id is not j]
        if left:
            out += " LEFTOVER " + ",".join(sorted(set(left)))
    except Exception as e:   # noqa
        out = "err " + ("ValueError" if type(e).__name__ == "PaddingError" else type(e).__name__)
    return out


class C10(IRProp):
    id = "C10"
    prop_file = "Properties/C10.v"
    tag = "c10"
    extract = ("iu", "ExtractIU.v", "iu_main.ml", "Iu_model")
    genopts = dict()
    trusted_base = ["Coq 8.16.1 kernel", "hand model IU/Model.v of intervalutils.split_byte_interval / join_byte_intervals (blocks pre-sorted by offset and size), tied by running the extracted model against the implementation on random intervals (both the "
                    "split result and the joined result are compared)", "extraction: ExtrOcamlBasic only; OCaml driver ocaml/zutil.ml + iu_main.ml"]
    assumptions = ["two blocks of an interval start at the same offset only as a zero-sized block in front of a sized one that no earlier block overlaps (inside one group the order of equal keys in max() over a set is not modelled)",
                   "alignment entries on intervals themselves are not generated"]
    level_rule = ("random byte intervals of 1-24 bytes, fully or partly initialized, up to 6 code/data blocks with gaps, overlaps and zero-sized "
                  "blocks, symbolic expressions, interval-keyed entries in three offset tables, alignment entries on blocks; plus the IR cases for "
                  "the no-op and alignment clauses")
    oracle_text = ("apply() with no modification leaves the complete dump unchanged; split keeps every block's address and bytes and gives every "
                   "group of overlapping blocks its own interval; join(split(I)) == I for fully initialized intervals whose alignment already "
                   "holds; after any rewrite every block with an alignment entry (old or added by a patch) is aligned and all bytes outside the "
                   "listing edit are nops behind code / zeros behind data, covered by blocks")

    def cases10(self, tier, tag):
        rnd = C.rng(tag)
        return [gen_interval(rnd) for _ in range({"quick": 3000, "thorough": 20000, "boost": 8000}[tier])]

    def correspondence(self, tier, ctx):
        cases = self.cases10(tier, "c10")
        runs = [run_splitjoin(c) for c in cases]
        self._sj = list(zip(cases, runs))
        lines = [model_line(c) for c in cases]
        got = C.run_driver("iu", lines)
        dis = [{"case": l, "implementation": r[0], "model": g} for l, r, g in zip(lines, runs, got) if r[0] != g]
        # joining intervals that were never one interval (what apply() does after patches put entries into later intervals)
        rnd = C.rng("c10-join")
        jcases = [gen_parts(rnd) for _ in range(len(cases) // 2)]
        jlines = [join_line(c) for c in jcases]
        jimpl = [run_join(c) for c in jcases]
        self._jj = list(zip(jcases, jimpl))
        jgot = C.run_driver("iu", jlines)
        dis += [{"case": l, "implementation": o, "model": g} for l, o, g in zip(jlines, jimpl, jgot) if o != g]
        lines = lines + jlines
        return dict(evaluations=len(lines), distinct_nontrivial=len(set(lines)), samples=[{"case": l[:150], "result": r[0][:250]} for l, r in list(zip(lines, runs))[:3]],
                    disagreements=dis[:20], dist={"intervals": len(cases), "partly_initialized": sum(1 for c in cases if c["init"] < c["size"]),
                                                  "with_overlaps": sum(1 for c in cases if any(a[1] + a[2] > b[1] for a, b in zip(c["blocks"], c["blocks"][1:]))),
                                                  "join_errors": sum(1 for r in runs if "err" in r[0]),
                                                  "nop_sources": {k: sum(1 for c in cases + jcases if c["nop"][0] == k) for k in ("arg", "enc", "both", "abi")},
                                                  "padding_refused": sum(1 for r in runs if "err ValueError" in r[0]) + sum(1 for o in jimpl if o == "err ValueError")})

    def oracle(self, tier, ctx, boosted):
        pairs = getattr(self, "_sj", None)
        if pairs is None or boosted:
            cases = self.cases10("boost" if boosted else tier, "c10-boost")
            pairs = (pairs or []) + [(c, run_splitjoin(c)) for c in cases]
        bads = []
        for c, (out, before, facts, _) in pairs:
            if c.get("_pad"):
                bads.append(dict(what=c["_pad"], input=c, finding=None))
            aligned = all((c["addr"] + off) % c["align"][bid] == 0 for (bid, off, sz, code) in c["blocks"] if bid in c["align"])
            for k, ok in facts.items():
                if not ok and (aligned or k not in ("size_kept", "addr_kept_after_join")):
                    bads.append(dict(what=f"split_byte_interval / join_byte_intervals of an interval whose alignment requirements hold: {k} violated", input=c, finding=None))
            if c["init"] == c["size"] and aligned and "err" not in out:
                after = out.split(" || ")[1]
                if after != before:
                    bads.append(dict(what=f"join(split(I)) != I: {before} -> {after}", input=c, finding=None))
        # joined intervals keep every annotation of their parts
        import re
        jj = getattr(self, "_jj", None)
        if jj is None or boosted:
            rnd = C.rng("c10-join-boost")
            cs = [gen_parts(rnd) for _ in range(3000)]
            jj = (jj or []) + [(c, run_join(c)) for c in cs]
        for c, out in jj:
            if c.get("_pad"):
                bads.append(dict(what=c["_pad"], input=c, finding=None))
            if out.startswith("err"):
                continue
            want = sorted(v for part in c["parts"] for t in part["tabs"] for v in t.values())
            got = sorted(int(x.split(":")[1]) for grp in re.findall(r"T\{([^}]*)\}", out) for x in grp.split(",") if x)
            wantx = sorted(v for part in c["parts"] for v in part["symex"].values())
            gotx = sorted(int(x.split(":")[1]) for grp in re.findall(r"X\{([^}]*)\}", out) for x in grp.split(",") if x)
            if want != got or wantx != gotx or "LEFTOVER" in out:
                bads.append(dict(what=f"join_byte_intervals loses or leaves behind annotations: table values {got} (expected {want}), expressions {gotx} (expected {wantx})",
                                 input=c, finding=None))
        # the no-op and alignment clauses on whole rewrites
        n = 0
        for sd in self.seeds("quick" if not boosted else "boost", self.tag + "-ir")[: (150 if not boosted else 600)]:
            n += 1
            v = self.check_rewrite(sd)
            if v:
                bads.append(dict(what=v[0], input={"seed": sd}, finding=v[1]))
            for sd2 in (sd, sd + 1):
                n += 1
                v = self.check_layout(sd2)
                if v:
                    bads.append(dict(what=v[0], input={"seed": sd2, "layout": True}, finding=v[1]))
        bads = [b for b in bads if b["finding"] is None][:10] + [b for b in bads if b["finding"]][:3]
        return dict(evaluations=len(pairs) + n, violations=bads, samples=[{"oracle": self.oracle_text}])

    def check_rewrite(self, sd):
        import gtirb
        import gtirb_rewriting
        case = self.make_case(sd)
        # only alignment requirements that hold in the input
        a, keep = 0x1000, {}
        for i in range(len(case.blocks)):
            if i in case.align and a % case.align[i] == 0:
                keep[i] = case.align[i]
            a += case.size(i)
        case.align = keep
        import random
        rnd = random.Random(sd)
        patched_align = False
        mods = []
        for (i, t, off, ln, patch, tp) in case.mods:
            if isinstance(patch, str) and rnd.random() < 0.3:
                patch, patched_align = "nop\n.align 4\nnop", True
            mods.append((i, t, off, ln, patch, tp))
        case.mods = mods
        # (1) no modifications at all
        B = irgen.build(case)
        before = full_dump(B.m)
        gtirb_rewriting.RewritingContext(B.m, B.fobjs).apply()
        after = full_dump(B.m)
        if before != after:
            import json
            a, b = json.loads(before), json.loads(after)
            diff = [k for k in a if a[k] != b.get(k)]
            return (f"apply() without modifications changes {diff}: {[(a[k], b[k]) for k in diff][:1]}"[:500], None)
        # (2) alignment after a real rewrite; half of the modules without alignment requirements have no alignment table at all
        import gtirb_rewriting.prepare as P
        from helpers import literal_patch
        B = irgen.build(case)
        m = B.m
        if not case.align and rnd.random() < 0.5:
            del m.aux_data["alignment"]
        firsts = set()
        orig = P.join_byte_intervals

        def spy(intervals, *a, **k):
            # join_byte_intervals pads in front of every interval but the first, for the first block of it that has an alignment entry
            tab = m.aux_data["alignment"].data if "alignment" in m.aux_data else {}
            for iv in intervals[1:]:          # the first interval stays where it is: nothing is padded in front of it
                al = [b for b in iv.blocks if b in tab]
                if al:
                    firsts.add(id(min(al, key=lambda b: b.offset)))
            return orig(intervals, *a, **k)
        P.join_byte_intervals = spy
        try:
            ctx = gtirb_rewriting.RewritingContext(m, B.fobjs)
            irgen.register(case, B, ctx, literal_patch)
            ctx.apply()
        except Exception:    # noqa
            return None
        finally:
            P.join_byte_intervals = orig
        for b, a in (m.aux_data["alignment"].data.items() if "alignment" in m.aux_data else ()):
            if isinstance(b, gtirb.ByteBlock) and (b.byte_interval is None or b.module is not m):
                # a requirement that nothing can meet any more: the block it names was merged away or removed
                return (f"the alignment table names a block (alignment {a}) that is not in the module after the rewrite", None)
            if isinstance(b, gtirb.ByteBlock) and b.address is not None and b.address % a != 0:
                # known finding: of the blocks of one interval only the first one with an alignment entry is padded for, so a block
                # created by `.align` inside a patch that lands behind another aligned block of the same interval stays misaligned
                original = any(b is g for g in B.gbs)
                later = patched_align and not original and id(b) not in firsts
                return (f"block at {b.address:#x} has alignment {a}" + ("" if later else " and is the first aligned block of an interval that is appended to another"),
                        "C10-align-directive-inside-a-patch" if later else None)
        return None

    def check_layout(self, sd):
        """Alignment requirements of the INPUT's blocks after a rewrite, in a text section and in a data-only section: aligned blocks
        that are not the first of their interval, size changes in front of them, a patch at offset 0 of an aligned block that itself
        starts with a (weaker or stronger) `.align`, data that grows in front of aligned data."""
        import random
        import gtirb
        import gtirb_rewriting
        from gtirb_test_helpers import add_code_block, add_data_block, add_data_section, add_symbol, add_text_section, create_test_module
        from helpers import literal_patch
        rnd = random.Random(sd ^ 0x10a10)
        ir, m = create_test_module(gtirb.Module.FileFormat.ELF, gtirb.Module.ISA.X64)
        _, bi = add_text_section(m, address=0x1000)
        _, dbi = add_data_section(m, address=0x4000)
        want = {}
        lead = rnd.choice([1, 3, 5, 16])
        f1 = add_code_block(bi, b"\x90" * (lead - 1) + b"\xc3")
        a1 = rnd.choice([4, 8, 16])
        if (-lead) % a1:
            add_code_block(bi, b"\x90" * ((-lead) % a1))
        f2 = add_code_block(bi, b"\x90" * rnd.choice([3, 5, 16]) + b"\xc3")
        end = f2.offset + f2.size
        a3 = rnd.choice([4, 16])
        if (-end) % a3:
            add_code_block(bi, b"\x90" * ((-end) % a3))
        f3 = add_code_block(bi, b"\x90\xc3")
        want[id(f2)], want[id(f3)] = (f2, a1, "f2"), (f3, a3, "f3")
        d1 = add_data_block(dbi, b"\1" * 8)
        n2 = rnd.choice([3, 8])
        d2 = add_data_block(dbi, b"\2" * n2)
        if (-(8 + n2)) % 16:
            add_data_block(dbi, b"\0" * ((-(8 + n2)) % 16))
        d3 = add_data_block(dbi, b"\3" * 4)
        want[id(d2)], want[id(d3)] = (d2, 8, "d2"), (d3, 16, "d3")
        for k, blk in (("f1", f1), ("f2", f2), ("f3", f3), ("d1", d1), ("d2", d2), ("d3", d3)):
            add_symbol(m, k, blk)
        tab = m.aux_data["alignment"].data
        for blk, a, _ in want.values():
            tab[blk] = a
        ctx = gtirb_rewriting.RewritingContext(m, [])
        did = []
        if rnd.random() < 0.6:
            ctx.insert_at(f1, 0, literal_patch("nop"))
            did.append("nop into f1")
        k = rnd.random()
        if k < 0.5:
            a2 = rnd.choice([2, 4, 8, 32])
            ctx.insert_at(f2, 0, literal_patch(f".align {a2}\nnop"))
            did.append(f"`.align {a2}; nop` at offset 0 of f2 (aligned {a1})")
        elif k < 0.7:
            ctx.insert_at(f2, 0, literal_patch("nop"))
            did.append("nop at offset 0 of f2")
        if rnd.random() < 0.6:
            off = rnd.choice([0, 4, 8])
            ctx.insert_at(d1, off, b"abc")
            did.append(f"3 bytes into d1 at {off}")
        if rnd.random() < 0.3:
            ctx.replace_at(d2, 0, 1, b"xy")
            did.append("d2: 1 byte replaced by 2")
        if not did:
            return None
        try:
            ctx.apply()
        except Exception as e:   # noqa
            return (f"rewrite ({'; '.join(did)}) raises {type(e).__name__}: {str(e)[:80]}", None)
        tab = m.aux_data["alignment"].data
        for blk, a, name in want.values():
            if blk.module is not m or blk.address is None:
                return (f"after {'; '.join(did)}: {name} left the module", None)
            if blk.address % a:
                return (f"after {'; '.join(did)}: {name} (alignment {a} in the input, met there) is at {blk.address:#x}; its table entry is {tab.get(blk)}", None)
            if tab.get(blk, 1) % a:
                return (f"after {'; '.join(did)}: the alignment entry of {name} went from {a} to {tab.get(blk)}", None)
        return None

    def spec(self, seed, case, r):
        return []

    def replay(self, path):
        import json
        d = json.load(open(path))
        print(json.dumps(d, indent=1)[:3000])
        v = d.get("violation")
        inp = v.get("input", {}) if v else {}
        if isinstance(inp, dict) and "seed" in inp and set(inp) <= {"seed", "layout"}:
            got = self.check_layout(inp["seed"]) if inp.get("layout") else self.check_rewrite(inp["seed"])
            print("replayed:", got or "no violation on the current tree")
            return 1 if got and not got[1] else 0
        return super().replay(path)


PROP = C10()
