"""C06: function tables keep describing the same code."""
import gtirb

from harness.c01 import expected_chunks
from harness.ir import IRProp
from vlib import common as C


def observe(module, B, rec):
    ivs = rec["ival_of_block"]
    fb = module.aux_data["functionBlocks"].data
    fe = module.aux_data["functionEntries"].data
    fn = module.aux_data["functionNames"].data
    fid = {f.uuid: i for i, f in enumerate(B.fobjs)}
    out = {"blocks": [], "entries": {}, "names": {}, "tables": (sorted(fid.get(u, str(u)) for u in fb), sorted(fid.get(u, str(u)) for u in fe), sorted(fid.get(u, str(u)) for u in fn)),
           "problems": []}
    for b in module.byte_blocks:
        j = next((k for k, x in enumerate(ivs) if x is b.byte_interval), None)
        owners = sorted(fid.get(u, str(u)) for u, bs in fb.items() if any(b is y for y in bs))
        out["blocks"].append((j, b.offset, b.size, "c" if isinstance(b, gtirb.CodeBlock) else "d", owners))
    live = list(module.byte_blocks)
    for u, bs in list(fb.items()) + list(fe.items()):
        for b in bs:
            if not any(b is y for y in live):
                out["problems"].append(f"function table of {fid.get(u, u)} mentions a block that is not in the module")
    for u, bs in fe.items():
        out["entries"][fid.get(u, str(u))] = sorted((next((k for k, x in enumerate(ivs) if x is b.byte_interval), None), b.offset) for b in bs)
        if u in fb and not all(any(b is y for y in fb[u]) for b in bs):
            out["problems"].append(f"entries of {fid.get(u, u)} are not a subset of its blocks")
    for u, s in fn.items():
        out["names"][fid.get(u, str(u))] = s.name
    return out


class C06(IRProp):
    id = "C06"
    prop_file = "Properties/C06.v"
    tag = "c06"
    genopts = dict(with_aux=False, nfun_max=3, whole_del=0.15, orphan_code=0.25, late_entry=0.3)
    trusted_base = IRProp.base_trusted
    assumptions = ["register_insert_function is not exercised by the generator (the model has no function insertion); that clause is left to the suite"]
    level_rule = ("random x86-64 modules with 0-3 functions of 1-3 blocks plus blocks outside any function and data blocks; insertions, replacements, "
                  "deletions (incl. whole entry blocks, with and without retarget_to_proxy); the entry of a function is its first block or (30%) a later one")
    oracle_text = ("when the modify cache is left: every code block lying in the interval of original block i (remnants and inserted code) belongs to "
                   "exactly the function block i belonged to, data blocks to none, entries are a subset of blocks, the entry is the block at the start "
                   "of the original entry's interval (or the promoted next block of the same function when the entry block was deleted, none with "
                   "retarget_to_proxy), functions without blocks are absent from all three tables, names unchanged")

    def observe(self, module, B, rec):
        return observe(module, B, rec)

    def spec(self, seed, case, r):
        if r["error"] is not None or r["obs"] is None:
            return []
        chunks = expected_chunks(case, r)
        if chunks is None:
            return []
        obs = r["obs"]
        bad = [dict(what=p) for p in obs["problems"]]
        func_of = [x.get("func") for x in case.blocks]
        for (j, off, size, kind, owners) in obs["blocks"]:
            if j is None:
                bad.append(dict(what=f"block at offset {off} lies in no known interval"))
                continue
            want = [] if kind == "d" or func_of[j] is None else [func_of[j]]
            if owners != want:
                bad.append(dict(what=f"{'code' if kind == 'c' else 'data'} block ({j},{off},{size}) belongs to functions {owners}, expected {want}"))
        # which functions still have code
        alive = sorted({func_of[j] for (j, off, size, kind, owners) in obs["blocks"] if j is not None and kind == "c" and func_of[j] is not None})
        for name, tab in zip(("functionBlocks", "functionEntries", "functionNames"), obs["tables"]):
            if tab != alive:
                bad.append(dict(what=f"{name} lists functions {tab}, functions with code are {alive}"))
        # entries
        proxied = {i for (i, t, off, ln, patch, to_proxy) in case.mods if t == "del" and to_proxy}
        for f in alive:
            own = [i for i, x in enumerate(case.blocks) if x.get("func") == f]
            e0 = getattr(case, "entry_of", {}).get(f, own[0])
            has_code = lambda j: any(jj == j and kind == "c" for (jj, off, size, kind, owners) in obs["blocks"])
            cur = e0
            while True:
                if has_code(cur):
                    want = [(cur, 0)]            # still there (possibly as a documented zero-sized block)
                    break
                # the entry block left the module: promotion of the physically next block when it is code of the same function -- and
                # again when that block is deleted in turn (deletions are applied in address order, so each sees the promoted entry)
                nxt = cur + 1
                if cur in proxied:
                    want = []
                    break
                if nxt < len(case.blocks) and case.blocks[nxt]["kind"] == "c" and func_of[nxt] == f:
                    cur = nxt
                    continue
                want = []
                break
            got = obs["entries"].get(f)
            if want is not None and got != want:
                bad.append(dict(what=f"entries of function {f}: {got}, expected {want}"))
            if obs["names"].get(f) != f"L{e0}":
                bad.append(dict(what=f"name of function {f}: {obs['names'].get(f)}, expected L{e0}"))
        return bad

    @staticmethod
    def whole_delete(case, i):
        return any(bi == i and t == "del" and off == 0 and ln == case.size(i) for (bi, t, off, ln, patch, _) in case.mods)

    def oracle(self, tier, ctx, boosted):
        res = super().oracle(tier, ctx, boosted)
        from harness import funcins
        n = {"quick": 300, "thorough": 3000}["thorough" if boosted else tier]
        rnd = C.rng(self.tag + "-funcins")
        done = 0
        for _ in range(n):
            sd = rnd.randrange(1 << 30)
            r = funcins.run(sd)
            if r["error"]:
                continue
            done += 1
            for w in funcins.check_tables(r)[:1]:
                res["violations"].append(dict(what="register_insert_function: " + w, input={"funcins_seed": sd, "functions": [t for _, _, t in r["inserted"]]}, finding=None))
        res["evaluations"] += done
        res["samples"].append({"oracle": "rewrites that add 1-3 functions with register_insert_function: each is in all three tables, named by its symbol, with the "
                                         "symbol's block as only entry, owning only new code blocks", "runs": done})
        res["violations"] = res["violations"][:12]
        return res


PROP = C06()
