"""C05: whenever apply() returns -- or raises -- the module is closed, well-formed and serializable."""
import io

import gtirb

from harness import irgen
from harness.c11 import full_dump
from harness.ir import IRProp


def validate(ir, m, caller_cfg=None):
    """Independent whole-IR validator.  Returns a list of problems."""
    bad = []
    blocks = list(m.byte_blocks)
    live = {id(b) for b in blocks} | {id(p) for p in m.proxies}
    intervals = {id(bi) for bi in m.byte_intervals}
    for b in blocks:
        bi = b.byte_interval
        if bi is None or id(bi) not in intervals:
            bad.append(f"block {b.uuid} is not in an interval of the module")
            continue
        if not (0 <= b.offset and b.offset + b.size <= bi.size):
            bad.append(f"block at offset {b.offset} size {b.size} lies outside its interval of size {bi.size}")
        if b.address is None:
            bad.append("block without an address")
    for bi in m.byte_intervals:
        if bi.size < len(bi.contents):
            bad.append("interval contents longer than its size")
        for off in bi.symbolic_expressions:
            if not (0 <= off < max(bi.size, 1)):
                bad.append(f"symbolic expression at {off} outside its interval")
        for off, e in bi.symbolic_expressions.items():
            for s in e.symbols:
                if s.module is not m:
                    bad.append(f"symbolic expression uses symbol {s.name} that is not in the module")
    if caller_cfg is not None and ir.cfg is not caller_cfg:
        bad.append("ir.cfg is not the caller's CFG object")
    for e in ir.cfg:
        for n in (e.source, e.target):
            if id(n) not in live:
                bad.append(f"CFG endpoint {type(n).__name__} outside the module")
    for s in m.symbols:
        r = s.referent
        if r is not None and id(r) not in live:
            bad.append(f"symbol {s.name} refers to a block outside the module")
    for name, tab in m.aux_data.items():
        data = tab.data
        keys = []
        if isinstance(data, dict) or hasattr(data, "items"):
            try:
                for k, v in data.items():
                    keys.append(k)
                    if isinstance(v, (set, list, tuple)):
                        keys.extend(x for x in v if isinstance(x, gtirb.Node))
                    elif isinstance(v, gtirb.Node):
                        keys.append(v)
            except Exception:   # noqa
                pass
        for k in keys:
            node = k.element_id if isinstance(k, gtirb.Offset) else k
            if isinstance(node, gtirb.ByteBlock) and id(node) not in live:
                bad.append(f"aux table {name} mentions a block outside the module")
            if isinstance(node, gtirb.ByteInterval) and id(node) not in intervals:
                bad.append(f"aux table {name} mentions an interval outside the module")
            if isinstance(node, gtirb.Symbol) and node.module is not m:
                bad.append(f"aux table {name} mentions a symbol outside the module")
            if isinstance(node, gtirb.ProxyBlock) and id(node) not in live:
                bad.append(f"aux table {name} mentions a proxy outside the module")
    return bad


def overlaps(m, original):
    """newly created non-empty blocks never overlap (blocks of the input may)"""
    bad = []
    for bi in m.byte_intervals:
        bs = sorted((b for b in bi.blocks if b.size), key=lambda b: b.offset)
        for x, y in zip(bs, bs[1:]):
            if x.offset + x.size > y.offset and not (id(x) in original and id(y) in original):
                bad.append(f"blocks [{x.offset},{x.offset + x.size}) and [{y.offset},{y.offset + y.size}) overlap")
    return bad


def roundtrip(ir):
    buf = io.BytesIO()
    ir.save_protobuf_file(buf)
    buf.seek(0)
    ir2 = gtirb.IR.load_protobuf_file(buf)
    return full_dump(ir2.modules[0])


class Boom(Exception):
    pass


def run_with_failure(case, k):
    """apply() with the k-th patch callback raising.  Returns (built, caller cfg, raised?)"""
    import gtirb_rewriting
    B = irgen.build(case)
    caller_cfg = B.ir.cfg
    ctx = gtirb_rewriting.RewritingContext(B.m, B.fobjs)
    count = [0]

    def mk(text):
        @gtirb_rewriting.patch_constraints()
        def patch(c):
            count[0] += 1
            if count[0] == k:
                raise Boom()
            return text
        return gtirb_rewriting.Patch.from_function(patch)
    irgen.register(case, B, ctx, mk)
    raised = None
    try:
        ctx.apply()
    except Boom:
        raised = "Boom"
    except Exception as e:    # noqa
        raised = type(e).__name__
    return B, caller_cfg, raised, count[0]


class C05(IRProp):
    id = "C05"
    prop_file = "Properties/C05.v"
    tag = "c05"
    genopts = dict(with_ext=True, with_lead=True, align_patches=True, multi_labels=True, shared_ret_proxy=0.3)
    trusted_base = IRProp.base_trusted + ["gtirb's protobuf serializer (the round trip is tested, not proved)"]
    assumptions = ["failures are injected as exceptions raised by patch callbacks; failures inside the library itself (assertions on inputs it "
                   "refuses) leave the same kind of state and are validated the same way"]
    level_rule = ("the IR correspondence cases; each validated after apply(), and re-run with an exception raised by the k-th patch callback for "
                  "every k; protobuf save/load round trip compared by complete dump")
    oracle_text = ("whole-IR validator (blocks inside intervals, new blocks disjoint, CFG endpoints / symbol referents / expression symbols / aux "
                   "keys all in the module, every block addressed, zero-sized blocks only when documented) after apply() returns and after it "
                   "raises; ir.cfg is the caller's object; no symbol lost its referent; save/load round trip leaves the dump unchanged")

    def spec(self, seed, case, r):
        B = r["built"]
        bad = []
        original = {id(b) for b in B.gbs}
        probs = validate(B.ir, B.m) + overlaps(B.m, original)
        if r["error"] is None:
            # zero-sized blocks: only where the library says it must keep one (symbols, CFI or edges with nowhere to go)
            try:
                if roundtrip(B.ir) != full_dump(B.m):
                    probs.append("protobuf save/load round trip changes the module")
            except Exception as e:   # noqa
                probs.append(f"module does not serialize: {type(e).__name__}: {e}")
        bad += [dict(what=("after apply(): " if r["error"] is None else f"after apply() raised {r['error']}: ") + p) for p in probs[:3]]
        # injected failures
        npatch = sum(1 for (_, t, _, _, patch, _) in case.mods if isinstance(patch, str))
        for k in range(1, npatch + 1):
            B2, caller_cfg, raised, called = run_with_failure(case, k)
            if raised is None:
                continue
            before = {s.name for s in irgen.build(case).m.symbols if s.referent is not None}
            probs = validate(B2.ir, B2.m, caller_cfg)
            for s in B2.m.symbols:
                if s.name in before and s.referent is None:
                    probs.append(f"symbol {s.name} lost its referent")
            try:
                roundtrip(B2.ir)
            except Exception as e:   # noqa
                probs.append(f"module left behind does not serialize: {type(e).__name__}")
            bad += [dict(what=f"patch callback {k} raised ({raised}): " + p) for p in probs[:2]]
        return bad


    def oracle(self, tier, ctx, boosted):
        import random

        from harness import ctxlevel
        from vlib import common as C
        res = super().oracle(tier, ctx, boosted)

        def check(ir, m):
            probs = validate(ir, m)
            if not probs:
                try:
                    roundtrip(ir)
                except Exception as e:   # noqa
                    probs.append(f"module does not serialize: {type(e).__name__}: {str(e)[:80]}")
            return probs[0] if probs else None
        rnd = C.rng("c05-ctx" + ("-boost" if boosted else ""))
        n = {"quick": 300, "thorough": 3000}["thorough" if boosted else tier]
        for k in range(2 * n):
            sd = rnd.randrange(1 << 30)
            # rewrites on x86-64, AArch64 and MIPS32 with alignment padding; tables that name single blocks (safe SEH, DT_INIT / DT_FINI, entry point)
            w = ctxlevel.scoped_listing(random.Random(sd), validate=check) if k % 2 else ctxlevel.block_tables(random.Random(sd))
            res["evaluations"] += 1
            if w:
                res["violations"].append(dict(what=w, input={("scoped_listing_seed" if k % 2 else "block_tables_seed"): sd}, finding=None))
        res["violations"] = [b for b in res["violations"] if b["finding"] is None][:10] + [b for b in res["violations"] if b["finding"] is not None][:5]
        return res


PROP = C05()
