"""Generic flow of one property check (see DESIGN.md section 2.4 / 5.1)."""
import json
import os
import sys
import time
import traceback

from . import common as C


class Prop:
    """Description of one property's machinery.  Subclass / instantiate in harness/cNN.py."""
    id = "C00"
    gens = []                 # [(translator script, Gen file)]
    prop_file = "Properties/C00.v"
    extract = None            # (driver name, Extract .v, main .ml, model module)
    allowed_axioms = set()
    trusted_base = []
    assumptions = []
    level_rule = ""

    def correspondence(self, tier, ctx):
        """model vs implementation.  returns dict(evaluations, distinct_nontrivial, samples, disagreements=[...], dist={})"""
        return dict(evaluations=0, distinct_nontrivial=0, samples=[], disagreements=[], dist={})

    def oracle(self, tier, ctx, boosted):
        """Spec (property text) vs implementation, no model involved.
        returns dict(evaluations, violations=[{'what','input',...,'finding':id or None}], samples=[...])"""
        return dict(evaluations=0, violations=[], samples=[])

    def replay(self, payload):
        return 0


def check(prop, tier):
    chk = None
    t0 = time.time()
    broken = []          # (kind, message)
    notes = {}
    with C.Lock():
        msg = C.run_translators(prop.gens)
        if msg:
            broken.append(("translator", msg))
        err = C.coq_prepare()
        if err:
            broken.append(("coq", err))
        target = "theories/" + prop.prop_file[:-2] + ".vo"
        if not broken:
            err = C.coq_make([target])
            if err:
                broken.append(("proof", err))
        deps = C.dep_closure(prop.prop_file)
        obligations = C.count_obligations(deps)
        hy = C.hygiene(deps)
        if hy:
            broken.append(("hygiene", "forbidden construct: " + "; ".join(hy[:5])))
        pa = {}
        if not broken:
            pa, err = C.print_assumptions(prop.prop_file)
            if err:
                broken.append(("assumptions", err))
            for thm, axs in pa.items():
                bad = [a for a in axs if a not in prop.allowed_axioms]
                if bad:
                    broken.append(("assumptions", f"{thm} depends on non-allow-listed axioms {bad}"))
        if not broken and tier == "thorough":
            chk, err = C.coqchk(prop.prop_file)
            if err:
                broken.append(("coqchk", err))
            elif any(chk.get(k) not in ("<none>",) for k in ("axioms", "type_in_type", "unsafe_fixpoints", "assumed_positivity")) and not prop.allowed_axioms:
                broken.append(("coqchk", f"coqchk reports {chk}"))
        model_ok = True
        if prop.extract:
            # the model files contain no proofs: they may still build when a proof broke
            if any(k == "translator" for k, _ in broken):
                model_ok = False
            else:
                # always: a model file that the property file does not import (e.g. Adt/BlockOrder.v) must be rebuilt too when a base file changed
                mods = [d for d in C.dep_closure("Extract/" + prop.extract[1]) if not d.startswith("Extract/")]
                err = C.coq_make(["theories/" + d[:-2] + ".vo" for d in mods])
                if err:
                    model_ok = False
                    if not broken:
                        broken.append(("model", "the model files do not build: " + str(err)[-300:]))
                if model_ok:
                    err = C.build_driver(prop.extract[0], prop.extract[1], prop.extract[2], prop.extract[3])
                    if err:
                        model_ok = False
                        broken.append(("extraction", err))
    ctx = {"tier": tier, "seed": C.seed()}
    corr = dict(evaluations=0, distinct_nontrivial=0, samples=[], disagreements=[], dist={})
    if model_ok:
        try:
            corr = prop.correspondence(tier, ctx)
        except Exception:
            broken.append(("correspondence", "harness exception: " + traceback.format_exc()[-400:]))
        for d in corr.get("disagreements", [])[:1]:
            broken.append(("correspondence", f"model and implementation differ on {json.dumps(d, default=str)[:400]}"))
    try:
        orc = prop.oracle(tier, ctx, boosted=bool(broken))
    except Exception:
        orc = dict(evaluations=0, violations=[], samples=[])
        broken.append(("oracle", "oracle exception: " + traceback.format_exc()[-400:]))
    # ---- verdict
    findings = {f["id"]: f for f in C.known_findings(prop.id)}
    seen_findings, real = {}, []
    for v in orc.get("violations", []):
        fid = v.get("finding")
        if fid and fid in findings:
            seen_findings.setdefault(fid, v)
        else:
            real.append(v)
    for fid, v in seen_findings.items():
        print(f"KNOWN-FINDING: property={prop.id} {fid} {findings[fid].get('what', '')}")
    rc = 0
    nviol = 0
    if real:
        v = real[0]
        path = C.write_replay(prop.id, {"property": prop.id, "tier": tier, "seed": C.seed(), "kind": "failing-input",
                                        "violation": v, "broken": broken, "replay_cmd": f"./check {prop.id} --replay <this file>"})
        print(f"VIOLATION property={prop.id} replay={path}")
        rc, nviol = 1, len(real)
    elif broken:
        path = C.write_replay(prop.id, {"property": prop.id, "tier": tier, "seed": C.seed(), "kind": "no-failing-input-found",
                                        "broken": [{"kind": k, "what": m} for k, m in broken],
                                        "searched": {"oracle_evaluations": orc.get("evaluations", 0), "correspondence_evaluations": corr.get("evaluations", 0)}})
        for k, m in broken:
            print(f"BROKEN[{k}] {m}")
        print(f"VIOLATION property={prop.id} replay={path} no-failing-input-found")
        rc, nviol = 1, 1
    wall = time.time() - t0
    discharged = len(obligations) if not any(k in ("proof", "translator", "coq", "hygiene") for k, _ in broken) else 0
    cov = {
        "obligations": max(1, len(obligations)),
        "discharged": max(1, discharged) if discharged else 0,
        "checker_cmd": f"cd /verif/coq && make -j{C.NCPU} theories/{prop.prop_file[:-2]}.vo  (coqc 8.16.1, full .vo) ; coqc Print Assumptions per theorem",
        "trusted_base": prop.trusted_base,
        "theorems": sorted(pa.keys()),
        "print_assumptions": {k: (v or "Closed under the global context") for k, v in pa.items()},
        "evaluations": corr.get("evaluations", 0) + orc.get("evaluations", 0),
        "correspondence_evaluations": corr.get("evaluations", 0),
        "oracle_evaluations": orc.get("evaluations", 0),
        "distinct_nontrivial": corr.get("distinct_nontrivial", 0),
        "rule": prop.level_rule,
        "samples": (corr.get("samples", []) + orc.get("samples", []))[:12] or ["(no cases run)"],
        "input_distribution": corr.get("dist", {}),
        "disagreements_checked": len(corr.get("disagreements", [])),
        "known_findings_seen": sorted(seen_findings),
        "broken": [{"kind": k, "what": m} for k, m in broken],
        "generated_files": [g[1] for g in prop.gens],
        "exhaustive": False,
    }
    if tier == "thorough":
        cov["coqchk"] = chk if chk else "not run (broken earlier)"
    cov.update(corr.get("extra", {}))
    C.write_evidence(prop.id, tier, cov, wall, nviol, prop.assumptions)
    print(f"{prop.id} {tier}: obligations={len(obligations)} discharged={discharged} correspondence={corr.get('evaluations', 0)} "
          f"oracle={orc.get('evaluations', 0)} wall={wall:.1f}s rc={rc}")
    return rc
