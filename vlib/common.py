"""Shared machinery of the /verif checks: paths, evidence, coq build, model drivers, verdicts."""
import fcntl
import hashlib
import json
import os
import random
import re
import subprocess
import sys
import time

VERIF = os.path.dirname(os.path.dirname(os.path.abspath(__file__)))
REPO = os.environ.get("VERIF_REPO", "/repo")
SRC = os.path.join(REPO, "src", "gtirb_rewriting") + "/"
COQ = os.path.join(VERIF, "coq")
TH = os.path.join(COQ, "theories")
OCAML = os.path.join(VERIF, "ocaml")
BUILD = os.path.join(OCAML, "build")
PY = "/venv/bin/python"
NCPU = 16

HYGIENE = re.compile(r"\b(Admitted|admit|Axiom|Axioms|Parameter|Parameters|Conjecture|Conjectures|Hypothesis|Hypotheses"
                     r"|Variable|Variables|Unset\s+Guard|bypass_check|Admit\s+Obligations|type-in-type|impredicative-set)\b")


def seed():
    try:
        return int(os.environ.get("VERIF_SEED", "0"))
    except ValueError:
        return 0


def rng(tag=""):
    return random.Random(f"{seed()}:{tag}")


class Lock:
    def __init__(self, name="build"):
        self.path = os.path.join(VERIF, f".{name}.lock")

    def __enter__(self):
        self.f = open(self.path, "w")
        fcntl.flock(self.f, fcntl.LOCK_EX)

    def __exit__(self, *a):
        fcntl.flock(self.f, fcntl.LOCK_UN)
        self.f.close()


def write_if_changed(path, text):
    try:
        if open(path).read() == text:
            return False
    except FileNotFoundError:
        pass
    os.makedirs(os.path.dirname(path), exist_ok=True)
    with open(path, "w") as f:
        f.write(text)
    return True


def run(cmd, cwd=None, timeout=1200, env=None, input=None):
    e = dict(os.environ)
    if env:
        e.update(env)
    try:
        p = subprocess.run(cmd, cwd=cwd, timeout=timeout, env=e, input=input, capture_output=True, text=True)
        return p.returncode, p.stdout, p.stderr
    except subprocess.TimeoutExpired as ex:
        return 124, (ex.stdout or b"").decode() if isinstance(ex.stdout, bytes) else (ex.stdout or ""), "TIMEOUT"


# ---------------------------------------------------------------------------- translators
def run_translators(gens):
    """gens: list of (script, outfile relative to theories/Gen).  Returns None or a message."""
    for script, out in gens:
        rc, so, se = run([PY, os.path.join(VERIF, "translator", script), SRC], cwd=os.path.join(VERIF, "translator"), timeout=120)
        if rc != 0:
            msg = (se.strip().splitlines() or ["translator failed"])[-1]
            # leave a stub so that nothing silently uses a stale generated file
            write_if_changed(os.path.join(TH, "Gen", out), f"(* translator refused: {msg.replace('*)', '* )')} *)\nTranslator refused.\n")
            return f"translator {script}: {msg}"
        write_if_changed(os.path.join(TH, "Gen", out), so)
    return None


# ---------------------------------------------------------------------------- coq
def coq_files():
    out = []
    for d, _, fs in os.walk(TH):
        for f in sorted(fs):
            if f.endswith(".v") and os.path.basename(d) != "Extract":
                out.append(os.path.relpath(os.path.join(d, f), COQ))
    return sorted(out)


def coq_prepare():
    proj = ("-Q theories GR\n"
            "-arg -w -arg -deprecated-hint-without-locality,-deprecated-instance-without-locality,-notation-overridden,-future-coercion-class-field\n"
            + "\n".join(coq_files()) + "\n")
    changed = write_if_changed(os.path.join(COQ, "_CoqProject"), proj)
    if changed or not os.path.exists(os.path.join(COQ, "Makefile")):
        rc, so, se = run(["coq_makefile", "-f", "_CoqProject", "-o", "Makefile"], cwd=COQ)
        if rc != 0:
            return f"coq_makefile failed: {se[-300:]}"
        # dependencies must be recomputed when the file list changes
        for f in (".Makefile.d",):
            try:
                os.remove(os.path.join(COQ, f))
            except FileNotFoundError:
                pass
    return None


def coq_make(targets, timeout=1500):
    """Full .vo build of the targets (never -vos).  Returns None or a message naming what broke."""
    rc, so, se = run(["make", "-j", str(NCPU), "-k"] + targets, cwd=COQ, timeout=timeout)
    if rc == 0:
        return None
    text = so + "\n" + se
    m = re.search(r'File "([^"]+)", line (\d+), characters [\d-]+:\s*\n((?:.*\n){1,6})', text)
    if m:
        f, line = m.group(1), int(m.group(2))
        name = enclosing_statement(os.path.join(COQ, f) if not os.path.isabs(f) else f, line)
        first = " ".join(m.group(3).split())[:240]
        return f"coq: {f}:{line} ({name}): {first}"
    if "TIMEOUT" in se:
        return "coq: build timed out"
    return "coq: build failed: " + " ".join(text.split())[-300:]


def enclosing_statement(path, line):
    try:
        lines = open(path).read().splitlines()
    except OSError:
        return "?"
    pat = re.compile(r"^\s*(?:Local\s+|Global\s+|#\[[^\]]*\]\s*)*(Theorem|Lemma|Corollary|Example|Definition|Fixpoint|Fact|Remark|Proposition|Instance)\s+([A-Za-z0-9_']+)")
    for i in range(min(line, len(lines)) - 1, -1, -1):
        m = pat.match(lines[i])
        if m:
            return f"{m.group(1)} {m.group(2)}"
    return "?"


STMT = re.compile(r"^\s*(?:Local\s+|Global\s+)?(Theorem|Lemma|Corollary|Example|Fact|Remark|Proposition)\s+([A-Za-z0-9_']+)", re.M)


def dep_closure(vfile):
    """GR-internal transitive dependencies of a .v file (paths relative to theories/)."""
    seen, todo = [], [vfile]
    while todo:
        f = todo.pop()
        if f in seen:
            continue
        seen.append(f)
        try:
            text = open(os.path.join(TH, f)).read()
        except OSError:
            continue
        text = re.sub(r"\(\*.*?\*\)", "", text, flags=re.S)
        for m in re.finditer(r"From\s+GR\s+Require\s+(?:Import\s+|Export\s+)?(.+?)\.(?=\s|$)", text, flags=re.S):
            for mod in m.group(1).split():
                todo.append(mod.replace(".", "/") + ".v")
    return sorted(seen)


def count_obligations(files):
    names = []
    for f in files:
        try:
            text = open(os.path.join(TH, f)).read()
        except OSError:
            continue
        text = re.sub(r"\(\*.*?\*\)", "", text, flags=re.S)
        names += [f"{f}:{m.group(2)}" for m in STMT.finditer(text)]
    return names


def hygiene(files):
    hits = []
    for f in files:
        try:
            text = open(os.path.join(TH, f)).read()
        except OSError:
            continue
        text = re.sub(r"\(\*.*?\*\)", lambda m: "\n" * m.group(0).count("\n"), text, flags=re.S)
        in_section = 0
        for i, line in enumerate(text.splitlines(), 1):
            if re.match(r"\s*Section\s", line):
                in_section += 1
            if re.match(r"\s*End\s", line) and in_section:
                in_section -= 1
            for m in HYGIENE.finditer(line):
                w = m.group(1)
                if w in ("Variable", "Variables", "Hypothesis", "Hypotheses") and in_section:
                    continue
                hits.append(f"{f}:{i}: {w}")
    return hits


def coqchk(prop_file, timeout=2400):
    """Independent re-check of the compiled property file and everything it depends on.  Returns (summary dict, error)."""
    mod = "GR." + prop_file[:-2].replace("/", ".")
    rc, so, se = run(["coqchk", "-silent", "-o", "-Q", TH, "GR", mod], cwd=COQ, timeout=timeout)
    text = so + se
    if rc != 0:
        return {}, "coqchk failed: " + " ".join(text.split())[-300:]
    out = {}
    for key, label in (("axioms", "Axioms:"), ("type_in_type", "type-in-type:"), ("unsafe_fixpoints", "unsafe (co)fixpoints:"), ("assumed_positivity", "positivity is assumed:")):
        m = re.search(re.escape(label) + r"\s*(.*?)(?=\n\s*\n|\n\* |\Z)", text, flags=re.S)
        out[key] = " ".join(m.group(1).split()) if m else "?"
    return out, None


def print_assumptions(prop_file):
    """Print Assumptions for every Theorem of Properties/<X>.v.  Returns (dict name -> list of axioms, error)."""
    path = os.path.join(TH, prop_file)
    text = re.sub(r"\(\*.*?\*\)", "", open(path).read(), flags=re.S)
    names = [m.group(2) for m in STMT.finditer(text)]
    mod = "GR." + prop_file[:-2].replace("/", ".")
    body = f"Require Import {mod}.\n" + "".join(f'Goal True. idtac "@@ {n}". exact I. Qed.\nPrint Assumptions {n}.\n' for n in names)
    tmp = os.path.join(BUILD, "pa_" + os.path.basename(prop_file))
    os.makedirs(BUILD, exist_ok=True)
    with open(tmp, "w") as f:
        f.write(body)
    rc, so, se = run(["coqc", "-Q", TH, "GR", tmp], cwd=BUILD, timeout=600)
    for ext in (".vo", ".vok", ".vos", ".glob"):
        try:
            os.remove(tmp[:-2] + ext)
        except FileNotFoundError:
            pass
    if rc != 0:
        return {}, "Print Assumptions failed: " + " ".join((so + se).split())[-300:]
    res, cur = {}, None
    for line in so.splitlines():
        if line.startswith("@@ "):
            cur = line[3:].strip()
            res[cur] = []
        elif cur is not None:
            s = line.strip()
            if not s or s.startswith("Closed under") or s == "Axioms:":
                continue
            m = re.match(r"^([A-Za-z_][A-Za-z0-9_.']*)\s*:", s)
            if m and not line.startswith(" " * 2):
                res[cur].append(m.group(1))
    return res, None


# ---------------------------------------------------------------------------- extracted models
def build_driver(name, extract_v, main_ml, model_mod):
    """Extract (coqc from ocaml/build) and compile driver `name`.  Returns None or message."""
    os.makedirs(BUILD, exist_ok=True)
    rc, so, se = run(["coqc", "-Q", TH, "GR", os.path.join(TH, "Extract", extract_v)], cwd=BUILD, timeout=600)
    if rc != 0:
        return "extraction failed: " + " ".join((so + se).split())[-300:]
    drv = os.path.join(BUILD, f"{name}_driver.ml")
    with open(drv, "w") as f:
        f.write(f"module Zar = Z\nopen {model_mod}\n")
        f.write(open(os.path.join(OCAML, "zutil.ml")).read())
        f.write(open(os.path.join(OCAML, main_ml)).read())
    ml = model_mod[0].lower() + model_mod[1:]
    rc, so, se = run(["ocamlfind", "ocamlopt", "-package", "zarith", "-linkpkg", "-w", "-a",
                      ml + ".mli", ml + ".ml", f"{name}_driver.ml", "-o", f"{name}_driver"], cwd=BUILD, timeout=600)
    if rc != 0:
        return "ocaml build failed: " + " ".join((so + se).split())[-300:]
    return None


def run_driver(name, lines, shards=NCPU, timeout=1800):
    """Feed command lines to the extracted-model driver (sharded); returns the output lines in order."""
    if not lines:
        return []
    exe = os.path.join(BUILD, f"{name}_driver")
    n = max(1, min(shards, len(lines) // 200 + 1))
    size = (len(lines) + n - 1) // n
    procs = []
    for i in range(n):
        chunk = lines[i * size:(i + 1) * size]
        p = subprocess.Popen(["bash", "-c", f"ulimit -s unlimited 2>/dev/null; exec {exe}"], stdin=subprocess.PIPE, stdout=subprocess.PIPE, text=True)
        procs.append((p, chunk))
    out = []
    import threading
    results = [None] * len(procs)

    def work(k):
        p, chunk = procs[k]
        try:
            so, _ = p.communicate("\n".join(chunk) + "\n", timeout=timeout)
        except subprocess.TimeoutExpired:
            p.kill()
            so = ""
        res = so.splitlines()
        res += ["driver-failure no-output"] * (len(chunk) - len(res))
        results[k] = res[:len(chunk)]
    ts = [threading.Thread(target=work, args=(k,)) for k in range(len(procs))]
    [t.start() for t in ts]
    [t.join() for t in ts]
    for r in results:
        out += r
    return out


# ---------------------------------------------------------------------------- findings, verdicts, evidence
def known_findings(prop):
    try:
        data = json.load(open(os.path.join(VERIF, "known_findings.json")))
    except FileNotFoundError:
        return []
    return [e for e in data.get("findings", []) if e.get("property") == prop and e.get("kind") == "finding"]


def write_replay(prop, payload):
    os.makedirs(os.path.join(VERIF, "replays"), exist_ok=True)
    h = hashlib.sha1(json.dumps(payload, sort_keys=True, default=str).encode()).hexdigest()[:12]
    path = os.path.join(VERIF, "replays", f"{prop}-{h}.json")
    with open(path, "w") as f:
        json.dump(payload, f, indent=1, default=str)
    return path


def write_evidence(prop, tier, coverage, wall, violations, assumptions, level="proof"):
    os.makedirs(os.path.join(VERIF, "evidence"), exist_ok=True)
    ev = {"property_id": prop, "tier": tier, "seed": seed(), "level": level, "coverage": coverage,
          "assumptions": assumptions, "wall_s": round(wall, 2), "violations": violations}
    with open(os.path.join(VERIF, "evidence", f"{prop}.json"), "w") as f:
        json.dump(ev, f, indent=1, default=str)
