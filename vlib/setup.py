"""./check setup : regenerate every Gen file from /repo, full Coq build, build every extracted driver."""
import importlib
import json
import os

from . import common as C


def props():
    man = json.load(open(os.path.join(C.VERIF, "MANIFEST.json")))
    out = []
    for c in man["checks"]:
        out.append(importlib.import_module("harness." + c["property_id"].lower()).PROP)
    return out


def main():
    ps = props()
    rc = 0
    with C.Lock():
        gens = []
        for p in ps:
            for g in p.gens:
                if g not in gens:
                    gens.append(g)
        msg = C.run_translators(gens)
        if msg:
            print("setup: " + msg)
            rc = 1
        err = C.coq_prepare()
        if err:
            print("setup: " + err)
            rc = 1
        targets = ["theories/" + p.prop_file[:-2] + ".vo" for p in ps]
        for p in ps:
            if p.extract:     # model files that only the extraction imports
                for d in C.dep_closure("Extract/" + p.extract[1]):
                    t = "theories/" + d[:-2] + ".vo"
                    if not d.startswith("Extract/") and t not in targets:
                        targets.append(t)
        err = C.coq_make(targets, timeout=3000)
        if err:
            print("setup: " + err)
            rc = 1
        for p in ps:
            if p.extract:
                err = C.build_driver(*p.extract)
                if err:
                    print(f"setup: {p.id}: {err}")
                    rc = 1
    print("setup done rc=%d" % rc)
    return rc
