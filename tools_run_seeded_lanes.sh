#!/bin/bash
# usage: tools_run_seeded_lanes.sh N prop...   -- reruns the seeded changes of the given properties in N lanes: each lane is a private mount namespace
# (unshare -m) in which a clone of /repo and a copy of /verif are bind-mounted over /repo and /verif, so the real trees are never touched.
# Results land in /tmp/laneK/log (harvest the "Cxx-n: ..." lines into seeded/results/); more than 3 lanes get slow.
N=$1; shift
pat=$(echo "$@" | tr ' ' '|')
ids=( $(ls /verif/seeded | grep -E "^($pat)-[0-9]+$" | sort -t- -k1,1 -k2,2n) )
for k in $(seq 1 $N); do
  L=/tmp/lane$k; rm -rf $L; mkdir -p $L
  git clone -q /repo $L/repo
  cp /repo/src/gtirb_rewriting/version.py $L/repo/src/gtirb_rewriting/version.py 2>/dev/null
  cp -a /verif $L/verif
  mine=""
  for i in "${!ids[@]}"; do if [ $(( i % N + 1 )) -eq $k ]; then mine="$mine ${ids[$i]}"; fi; done
  ( unshare -m bash -c "mount --bind $L/repo /repo && mount --bind $L/verif /verif && cd /verif && KEEP=$L/keep ./tools_run_seeded.sh $mine" > $L/log 2>&1; echo LANE-DONE >> $L/log ) &
done
wait
